(* C03 - lemmas about the codec model (Codec/CodecDefs.v): bit arithmetic of the 3-byte/4-character
   groups, table facts re-established on the regenerated tables, uuencode/base64 line and stream round
   trip through the uu read filter model, chunking independence of the writers (with the client
   re-blocking layer), bidder acceptance, the abstract drive loop and member concatenation. *)
From Coq Require Import List ZArith NArith Bool Lia.
From LA Require Import Base.Val Gen.Codec Codec.CodecDefs.
Import ListNotations.
Local Open Scope N_scope.
Ltac Zify.zify_post_hook ::= Z.to_euclidean_division_equations.

Lemma lor_shiftl_add : forall a b k, b < 2 ^ k -> N.lor (N.shiftl a k) b = a * 2 ^ k + b.
Proof.
  intros a b k Hb.
  rewrite <- N.lxor_lor, <- N.add_nocarry_lxor, N.shiftl_mul_pow2; auto.
  all: apply N.bits_inj_0; intros n; rewrite N.land_spec.
  all: destruct (N.lt_ge_cases n k) as [Hlt|Hge].
  all: try (rewrite N.shiftl_spec_low by exact Hlt; reflexivity).
  all: destruct (N.eq_dec b 0) as [->|Hnz]; [rewrite N.bits_0, andb_false_r; reflexivity|].
  all: rewrite (N.bits_above_log2 b n), andb_false_r; auto.
  all: apply N.log2_lt_pow2; [lia|]; eapply N.lt_le_trans; [exact Hb|]; apply N.pow_le_mono_r; lia.
Qed.

Lemma lor_mul_add : forall a b k, b < 2 ^ k -> N.lor (a * 2 ^ k) b = a * 2 ^ k + b.
Proof. intros. rewrite <- lor_shiftl_add by assumption. rewrite N.shiftl_mul_pow2. reflexivity. Qed.

(* exhaustive check below a bound, lifted to a quantified statement *)
Fixpoint all_below (n : nat) (f : N -> bool) : bool :=
  match n with O => true | S k => f (N.of_nat k) && all_below k f end.

Lemma all_below_spec : forall n f, all_below n f = true -> forall x, x < N.of_nat n -> f x = true.
Proof.
  induction n; intros f H x Hx; [lia|].
  cbn [all_below] in H. apply andb_true_iff in H. destruct H as [H1 H2].
  destruct (N.eq_dec x (N.of_nat n)) as [->|Hne]; auto.
  apply IHn; auto. lia.
Qed.

Lemma byte_ops : forall p, p < 256 ->
  N.shiftr p 2 = p / 4 /\ N.land p 3 = p mod 4 /\ N.land p 15 = p mod 16 /\ N.land p 63 = p mod 64 /\
  N.shiftr (N.land p 240) 4 = p / 16 /\ N.shiftr (N.land p 192) 6 = p / 64.
Proof.
  intros p Hp.
  assert (H : all_below 256 (fun p => (N.shiftr p 2 =? p / 4) && (N.land p 3 =? p mod 4) && (N.land p 15 =? p mod 16) &&
             (N.land p 63 =? p mod 64) && (N.shiftr (N.land p 240) 4 =? p / 16) && (N.shiftr (N.land p 192) 6 =? p / 64)) = true)
    by (vm_compute; reflexivity).
  pose proof (all_below_spec _ _ H p Hp) as E. cbv beta in E.
  repeat (apply andb_true_iff in E; destruct E as [E ?]).
  repeat match goal with H : (_ =? _) = true |- _ => apply N.eqb_eq in H end.
  repeat split; assumption.
Qed.

(* the four 6-bit values of three bytes *)
Definition sx0 (p0 : N) := N.shiftr p0 2.
Definition sx1 (p0 p1 : N) := N.lor (N.shiftl (N.land p0 3) 4) (N.shiftr (N.land p1 240) 4).
Definition sx2 (p1 p2 : N) := N.lor (N.shiftl (N.land p1 15) 2) (N.shiftr (N.land p2 192) 6).
Definition sx3 (p2 : N) := N.land p2 63.

Lemma sextets_arith : forall p0 p1 p2, p0 < 256 -> p1 < 256 -> p2 < 256 ->
  sx0 p0 = p0 / 4 /\ sx1 p0 p1 = (p0 mod 4) * 16 + p1 / 16 /\
  sx2 p1 p2 = (p1 mod 16) * 4 + p2 / 64 /\ sx3 p2 = p2 mod 64 /\
  N.shiftl (N.land p0 3) 4 = (p0 mod 4) * 16 /\ N.shiftl (N.land p1 15) 2 = (p1 mod 16) * 4.
Proof.
  intros p0 p1 p2 H0 H1 H2. unfold sx0, sx1, sx2, sx3.
  destruct (byte_ops p0 H0) as (A0 & A1 & A2 & A3 & A4 & A5).
  destruct (byte_ops p1 H1) as (B0 & B1 & B2 & B3 & B4 & B5).
  destruct (byte_ops p2 H2) as (C0 & C1 & C2 & C3 & C4 & C5).
  rewrite A0, A1, B4, B2, C5, C3.
  rewrite (lor_shiftl_add (p0 mod 4) (p1 / 16) 4) by (change (2 ^ 4) with 16; lia).
  rewrite (lor_shiftl_add (p1 mod 16) (p2 / 64) 2) by (change (2 ^ 2) with 4; lia).
  rewrite !N.shiftl_mul_pow2.
  change (2 ^ 4) with 16. change (2 ^ 2) with 4. repeat split; reflexivity.
Qed.

(* decoding arithmetic on four values below 64 *)
Lemma dec_arith : forall v0 v1 v2 v3, v0 < 64 -> v1 < 64 -> v2 < 64 -> v3 < 64 ->
  let n := N.lor (N.shiftl v0 18) (N.shiftl v1 12) in
  let n2 := N.lor n (N.shiftl v2 6) in
  let n3 := N.lor n2 v3 in
  N.shiftr n 16 = (v0 * 4 + v1 / 16) /\
  N.land (N.shiftr n2 8) 255 = ((v1 mod 16) * 16 + v2 / 4) /\
  N.land n3 255 = ((v2 mod 4) * 64 + v3).
Proof.
  intros v0 v1 v2 v3 H0 H1 H2 H3 n n2 n3.
  assert (En : n = (v0 * 64 + v1) * 2 ^ 12).
  { unfold n. rewrite (N.shiftl_mul_pow2 v1 12).
    rewrite lor_shiftl_add by (change (2 ^ 12) with 4096; change (2 ^ 18) with 262144; lia).
    change (2 ^ 12) with 4096; change (2 ^ 18) with 262144; lia. }
  assert (En2 : n2 = ((v0 * 64 + v1) * 64 + v2) * 2 ^ 6).
  { unfold n2. rewrite En, (N.shiftl_mul_pow2 v2 6).
    rewrite lor_mul_add by (change (2 ^ 12) with 4096; change (2 ^ 6) with 64; lia).
    change (2 ^ 12) with 4096; change (2 ^ 6) with 64; lia. }
  assert (En3 : n3 = (((v0 * 64 + v1) * 64 + v2) * 64 + v3)).
  { unfold n3. rewrite En2. rewrite lor_mul_add by (change (2 ^ 6) with 64; lia).
    change (2 ^ 6) with 64; lia. }
  change 255 with (N.ones 8). rewrite !N.land_ones, !N.shiftr_div_pow2.
  rewrite En3, En2, En.
  change (2 ^ 16) with 65536. change (2 ^ 12) with 4096. change (2 ^ 8) with 256. change (2 ^ 6) with 64.
  repeat split; lia.
Qed.

(* ------------------------------------------------------------------ one group of three bytes *)
Lemma sextets_lt : forall p0 p1 p2, p0 < 256 -> p1 < 256 -> p2 < 256 ->
  sx0 p0 < 64 /\ sx1 p0 p1 < 64 /\ sx2 p1 p2 < 64 /\ sx3 p2 < 64 /\
  N.shiftl (N.land p0 3) 4 < 64 /\ N.shiftl (N.land p1 15) 2 < 64.
Proof.
  intros p0 p1 p2 H0 H1 H2.
  destruct (sextets_arith p0 p1 p2 H0 H1 H2) as (E0 & E1 & E2 & E3 & E4 & E5).
  rewrite E0, E1, E2, E3, E4, E5. repeat split; lia.
Qed.

Lemma group3_roundtrip : forall p0 p1 p2, p0 < 256 -> p1 < 256 -> p2 < 256 ->
  let n := N.lor (N.shiftl (sx0 p0) 18) (N.shiftl (sx1 p0 p1) 12) in
  let n2 := N.lor n (N.shiftl (sx2 p1 p2) 6) in
  let n3 := N.lor n2 (sx3 p2) in
  N.shiftr n 16 = p0 /\ N.land (N.shiftr n2 8) 255 = p1 /\ N.land n3 255 = p2.
Proof.
  intros p0 p1 p2 H0 H1 H2.
  destruct (sextets_lt p0 p1 p2 H0 H1 H2) as (L0 & L1 & L2 & L3 & _ & _).
  destruct (dec_arith _ _ _ _ L0 L1 L2 L3) as (D0 & D1 & D2).
  destruct (sextets_arith p0 p1 p2 H0 H1 H2) as (E0 & E1 & E2 & E3 & _ & _).
  cbv zeta. rewrite D0, D1, D2. rewrite E0, E1, E2, E3. repeat split; lia.
Qed.

(* tail of one byte: values p0>>2 and (p0&3)<<4 *)
Lemma group1_roundtrip : forall p0, p0 < 256 ->
  N.shiftr (N.lor (N.shiftl (sx0 p0) 18) (N.shiftl (N.shiftl (N.land p0 3) 4) 12)) 16 = p0.
Proof.
  intros p0 H0.
  assert (Z0 : 0 < 256) by lia. assert (Z1 : 0 < 64) by lia.
  destruct (sextets_lt p0 0 0 H0 Z0 Z0) as (L0 & _ & _ & _ & L4 & _).
  destruct (dec_arith (sx0 p0) (N.shiftl (N.land p0 3) 4) 0 0 L0 L4 Z1 Z1) as (D0 & _ & _).
  destruct (sextets_arith p0 0 0 H0 Z0 Z0) as (E0 & _ & _ & _ & E4 & _).
  rewrite D0, E0, E4. lia.
Qed.

(* tail of two bytes *)
Lemma group2_roundtrip : forall p0 p1, p0 < 256 -> p1 < 256 ->
  let n := N.lor (N.shiftl (sx0 p0) 18) (N.shiftl (sx1 p0 p1) 12) in
  let n2 := N.lor n (N.shiftl (N.shiftl (N.land p1 15) 2) 6) in
  N.shiftr n 16 = p0 /\ N.land (N.shiftr n2 8) 255 = p1.
Proof.
  intros p0 p1 H0 H1.
  assert (Z0 : 0 < 256) by lia. assert (Z1 : 0 < 64) by lia.
  destruct (sextets_lt p0 p1 0 H0 H1 Z0) as (L0 & L1 & _ & _ & _ & L5).
  destruct (dec_arith (sx0 p0) (sx1 p0 p1) (N.shiftl (N.land p1 15) 2) 0 L0 L1 L5 Z1) as (D0 & D1 & _).
  destruct (sextets_arith p0 p1 0 H0 H1 Z0) as (E0 & E1 & _ & _ & _ & E5).
  cbv zeta. rewrite D0, D1, E0, E1, E5. split; lia.
Qed.

(* ------------------------------------------------------------------ the tables *)
Definition in_ascii1 (c : N) : bool := asc c =? 1.

(* decidable facts about the generated tables that the proofs below rely on; each is
   re-established by vm_compute on the tables regenerated from the source *)
(* base64: every alphabet character is accepted, is not '=', is printable, and maps back *)
Definition tab_b64_ok : bool :=
  all_below 64 (fun v => b64ch (b64c v) && negb (b64c v =? 61) && (b64num (b64c v) =? v) && in_ascii1 (b64c v)).
(* uuencode: the same for UUENC / UUDECODE *)
Definition tab_uu_ok : bool :=
  all_below 64 (fun v => uuch (UUENC v) && (UUDEC (UUENC v) =? v) && in_ascii1 (UUENC v)).
(* printable ASCII is class 1 *)
Definition tab_ascii_ok : bool :=
  all_below 256 (fun c => if (32 <=? c) && (c <=? 126) then in_ascii1 c else true).
Definition tab_misc_ok : bool :=
  (asc 10 =? 10) && b64ch 61 && uuch 96 && (UUDEC 96 =? 0) &&
  (b64_LBYTES =? 57)%nat && (uu_LBYTES =? 45)%nat && (UUENCODE_BID_MAX_READ =? 131072).
Definition tables_ok : bool := tab_b64_ok && tab_uu_ok && tab_ascii_ok && tab_misc_ok.

Lemma tab_b64_ok_true : tab_b64_ok = true. Proof. vm_compute. reflexivity. Qed.
Lemma tab_uu_ok_true : tab_uu_ok = true. Proof. vm_compute. reflexivity. Qed.
Lemma tab_ascii_ok_true : tab_ascii_ok = true. Proof. vm_compute. reflexivity. Qed.
Lemma tab_misc_ok_true : tab_misc_ok = true. Proof. vm_compute. reflexivity. Qed.
Lemma tables_ok_true : tables_ok = true.
Proof. unfold tables_ok. rewrite tab_b64_ok_true, tab_uu_ok_true, tab_ascii_ok_true, tab_misc_ok_true. reflexivity. Qed.

Lemma b64_tab : forall v, v < 64 ->
  b64ch (b64c v) = true /\ b64c v <> 61 /\ b64num (b64c v) = v /\ asc (b64c v) = 1.
Proof.
  intros v Hv.
  pose proof (all_below_spec _ _ tab_b64_ok_true v Hv) as E. cbv beta in E.
  repeat (apply andb_true_iff in E; destruct E as [E ?]).
  unfold in_ascii1 in *.
  repeat match goal with H : (_ =? _) = true |- _ => apply N.eqb_eq in H end.
  repeat split; auto.
  intro C. rewrite C in *. discriminate.
Qed.

Lemma uu_tab : forall v, v < 64 ->
  uuch (UUENC v) = true /\ UUDEC (UUENC v) = v /\ asc (UUENC v) = 1.
Proof.
  intros v Hv.
  pose proof (all_below_spec _ _ tab_uu_ok_true v Hv) as E. cbv beta in E.
  repeat (apply andb_true_iff in E; destruct E as [E ?]).
  unfold in_ascii1 in *.
  repeat match goal with H : (_ =? _) = true |- _ => apply N.eqb_eq in H end.
  repeat split; auto.
Qed.

Lemma printable_asc : forall c, 32 <= c <= 126 -> asc c = 1.
Proof.
  intros c Hc.
  pose proof (all_below_spec _ _ tab_ascii_ok_true c ltac:(lia)) as E. cbv beta in E.
  replace ((32 <=? c) && (c <=? 126)) with true in E.
  - unfold in_ascii1 in E. apply N.eqb_eq in E. exact E.
  - symmetry. apply andb_true_iff. split; apply N.leb_le; lia.
Qed.

(* ------------------------------------------------------------------ lists by groups of three *)
Lemma list_ind3 : forall (P : list N -> Prop),
  P [] -> (forall a, P [a]) -> (forall a b, P [a; b]) ->
  (forall a b c l, P l -> P (a :: b :: c :: l)) -> forall l, P l.
Proof.
  intros P H0 H1 H2 H3.
  fix IH 1. intros [|a [|b [|c l]]]; [exact H0 | apply H1 | apply H2 | apply H3; apply IH].
Qed.

Definition bytes_ok (p : list N) : Prop := Forall (fun x => x < 256) p.

Lemma bytes_ok_cons : forall a l, bytes_ok (a :: l) -> a < 256 /\ bytes_ok l.
Proof. intros a l H. inversion H; subst. split; assumption. Qed.

Lemma bytes_ok_app : forall a b, bytes_ok (a ++ b) <-> bytes_ok a /\ bytes_ok b.
Proof. intros. unfold bytes_ok. apply Forall_app. Qed.

Lemma bytes_ok_firstn : forall n l, bytes_ok l -> bytes_ok (firstn n l).
Proof.
  intros n l H. rewrite <- (firstn_skipn n l) in H. apply bytes_ok_app in H. tauto.
Qed.

Lemma bytes_ok_skipn : forall n l, bytes_ok l -> bytes_ok (skipn n l).
Proof.
  intros n l H. rewrite <- (firstn_skipn n l) in H. apply bytes_ok_app in H. tauto.
Qed.

(* -- uuencode groups *)
Definition uu_char_ok (c : N) : Prop := uuch c = true /\ asc c = 1.

Lemma uu_char_ok_enc : forall v, v < 64 -> uu_char_ok (UUENC v).
Proof. intros v Hv. destruct (uu_tab v Hv) as (A & _ & C). split; assumption. Qed.

Lemma uu_char_ok_96 : uu_char_ok 96.
Proof. apply (uu_char_ok_enc 0). lia. Qed.

Lemma uu_groups_ok : forall p, bytes_ok p -> Forall uu_char_ok (uu_groups p).
Proof.
  induction p using list_ind3; intros Hp; cbn [uu_groups].
  - constructor.
  - apply bytes_ok_cons in Hp. destruct Hp as [Ha _].
    assert (Z0 : 0 < 256) by lia.
    destruct (sextets_lt a 0 0 Ha Z0 Z0) as (L0 & _ & _ & _ & L4 & _). unfold sx0 in L0.
    repeat (apply Forall_cons; [first [apply uu_char_ok_enc; assumption | apply uu_char_ok_96]|]); apply Forall_nil.
  - apply bytes_ok_cons in Hp. destruct Hp as [Ha Hp]. apply bytes_ok_cons in Hp. destruct Hp as [Hb _].
    assert (Z0 : 0 < 256) by lia.
    destruct (sextets_lt a b 0 Ha Hb Z0) as (L0 & L1 & _ & _ & _ & L5). unfold sx0, sx1 in *.
    repeat (apply Forall_cons; [first [apply uu_char_ok_enc; assumption | apply uu_char_ok_96]|]); apply Forall_nil.
  - apply bytes_ok_cons in Hp. destruct Hp as [Ha Hp]. apply bytes_ok_cons in Hp. destruct Hp as [Hb Hp].
    apply bytes_ok_cons in Hp. destruct Hp as [Hc Hp].
    destruct (sextets_lt a b c Ha Hb Hc) as (L0 & L1 & L2 & L3 & _ & _). unfold sx0, sx1, sx2, sx3 in *.
    repeat (apply Forall_cons; [apply uu_char_ok_enc; assumption|]). apply IHp. assumption.
Qed.

Lemma uu_groups_length : forall p, length (uu_groups p) = (4 * ((length p + 2) / 3))%nat.
Proof.
  induction p using list_ind3; try reflexivity.
  cbn [uu_groups length]. rewrite IHp.
  replace (S (S (S (length p))) + 2)%nat with ((length p + 2) + 1 * 3)%nat by lia.
  rewrite Nat.div_add by lia. lia.
Qed.

Lemma uu_dec_groups : forall p, bytes_ok p -> forall rest,
  uu_dec_line (length p) (uu_groups p ++ rest) = Some p.
Proof.
  induction p using list_ind3; intros Hp rest.
  - destruct rest; reflexivity.
  - apply bytes_ok_cons in Hp. destruct Hp as [Ha _].
    assert (Z0 : 0 < 256) by lia.
    destruct (sextets_lt a 0 0 Ha Z0 Z0) as (L0 & _ & _ & _ & L4 & _). unfold sx0 in L0.
    destruct (uu_tab _ L0) as (A0 & B0 & _). destruct (uu_tab _ L4) as (A1 & B1 & _).
    cbn [uu_groups app length uu_dec_line]. rewrite A0, A1, B0, B1. cbn [negb orb].
    pose proof (group1_roundtrip a Ha) as G. unfold sx0 in G. rewrite G. reflexivity.
  - apply bytes_ok_cons in Hp. destruct Hp as [Ha Hp]. apply bytes_ok_cons in Hp. destruct Hp as [Hb _].
    assert (Z0 : 0 < 256) by lia.
    destruct (sextets_lt a b 0 Ha Hb Z0) as (L0 & L1 & _ & _ & _ & L5). unfold sx0, sx1 in *.
    destruct (uu_tab _ L0) as (A0 & B0 & _). destruct (uu_tab _ L1) as (A1 & B1 & _).
    destruct (uu_tab _ L5) as (A2 & B2 & _).
    cbn [uu_groups app length uu_dec_line]. rewrite A0, A1, A2, B0, B1, B2. cbn [negb orb].
    pose proof (group2_roundtrip a b Ha Hb) as G. unfold sx0, sx1 in G. cbv zeta in G.
    destruct G as [G0 G1]. rewrite G0, G1. reflexivity.
  - apply bytes_ok_cons in Hp. destruct Hp as [Ha Hp]. apply bytes_ok_cons in Hp. destruct Hp as [Hb Hp].
    apply bytes_ok_cons in Hp. destruct Hp as [Hc Hp].
    destruct (sextets_lt a b c Ha Hb Hc) as (L0 & L1 & L2 & L3 & _ & _). unfold sx0, sx1, sx2, sx3 in *.
    destruct (uu_tab _ L0) as (A0 & B0 & _). destruct (uu_tab _ L1) as (A1 & B1 & _).
    destruct (uu_tab _ L2) as (A2 & B2 & _). destruct (uu_tab _ L3) as (A3 & B3 & _).
    cbn [uu_groups app length uu_dec_line]. rewrite A0, A1, A2, A3, B0, B1, B2, B3. cbn [negb orb].
    pose proof (group3_roundtrip a b c Ha Hb Hc) as G. unfold sx0, sx1, sx2, sx3 in G. cbv zeta in G.
    destruct G as (G0 & G1 & G2). rewrite G0, G1, G2. rewrite IHp by assumption. reflexivity.
Qed.

(* -- base64 groups *)
Definition b64_char_ok (c : N) : Prop := b64ch c = true /\ asc c = 1.

Lemma b64_char_ok_enc : forall v, v < 64 -> b64_char_ok (b64c v).
Proof. intros v Hv. destruct (b64_tab v Hv) as (A & _ & _ & C). split; assumption. Qed.

Lemma b64_char_ok_61 : b64_char_ok 61.
Proof. split; vm_compute; reflexivity. Qed.

Lemma b64_groups_ok : forall p, bytes_ok p -> Forall b64_char_ok (b64_groups p).
Proof.
  induction p using list_ind3; intros Hp; cbn [b64_groups].
  - constructor.
  - apply bytes_ok_cons in Hp. destruct Hp as [Ha _].
    assert (Z0 : 0 < 256) by lia.
    destruct (sextets_lt a 0 0 Ha Z0 Z0) as (L0 & _ & _ & _ & L4 & _). unfold sx0 in L0.
    repeat (apply Forall_cons; [first [apply b64_char_ok_enc; assumption | apply b64_char_ok_61]|]); apply Forall_nil.
  - apply bytes_ok_cons in Hp. destruct Hp as [Ha Hp]. apply bytes_ok_cons in Hp. destruct Hp as [Hb _].
    assert (Z0 : 0 < 256) by lia.
    destruct (sextets_lt a b 0 Ha Hb Z0) as (L0 & L1 & _ & _ & _ & L5). unfold sx0, sx1 in *.
    repeat (apply Forall_cons; [first [apply b64_char_ok_enc; assumption | apply b64_char_ok_61]|]); apply Forall_nil.
  - apply bytes_ok_cons in Hp. destruct Hp as [Ha Hp]. apply bytes_ok_cons in Hp. destruct Hp as [Hb Hp].
    apply bytes_ok_cons in Hp. destruct Hp as [Hc Hp].
    destruct (sextets_lt a b c Ha Hb Hc) as (L0 & L1 & L2 & L3 & _ & _). unfold sx0, sx1, sx2, sx3 in *.
    repeat (apply Forall_cons; [apply b64_char_ok_enc; assumption|]). apply IHp. assumption.
Qed.

Lemma b64_groups_length : forall p, length (b64_groups p) = (4 * ((length p + 2) / 3))%nat.
Proof.
  induction p using list_ind3; try reflexivity.
  cbn [b64_groups length]. rewrite IHp.
  replace (S (S (S (length p))) + 2)%nat with ((length p + 2) + 1 * 3)%nat by lia.
  rewrite Nat.div_add by lia. lia.
Qed.

(* the first character of a non-empty group list is an alphabet character, never '=' *)
Lemma b64_groups_head : forall p, bytes_ok p -> p <> [] ->
  exists c t, b64_groups p = c :: t /\ c <> 61 /\ b64ch c = true.
Proof.
  intros p Hp Hne. destruct p as [|a p]; [congruence|].
  apply bytes_ok_cons in Hp. destruct Hp as [Ha _].
  assert (Z0 : 0 < 256) by lia.
  destruct (sextets_lt a 0 0 Ha Z0 Z0) as (L0 & _). unfold sx0 in L0.
  destruct (b64_tab _ L0) as (A & B & _).
  destruct p as [|b [|c p]]; cbn [b64_groups]; eexists; eexists; (split; [reflexivity|split; assumption]).
Qed.

Lemma eqb_61_false : forall c, c <> 61 -> (c =? 61) = false.
Proof. intros. apply N.eqb_neq. assumption. Qed.

Lemma b64_dec_groups : forall p, bytes_ok p -> forall rest,
  b64_dec_line (length (b64_groups p)) (b64_groups p ++ rest) = Some p.
Proof.
  induction p using list_ind3; intros Hp rest.
  - destruct rest; reflexivity.
  - apply bytes_ok_cons in Hp. destruct Hp as [Ha _].
    assert (Z0 : 0 < 256) by lia.
    destruct (sextets_lt a 0 0 Ha Z0 Z0) as (L0 & _ & _ & _ & L4 & _). unfold sx0 in L0.
    destruct (b64_tab _ L0) as (A0 & _ & B0 & _). destruct (b64_tab _ L4) as (A1 & _ & B1 & _).
    cbn [b64_groups app length b64_dec_line Nat.sub]. rewrite A0, A1, B0, B1. cbn [negb orb].
    change (61 =? 61) with true. cbv iota.
    pose proof (group1_roundtrip a Ha) as G. unfold sx0 in G. rewrite G. reflexivity.
  - apply bytes_ok_cons in Hp. destruct Hp as [Ha Hp]. apply bytes_ok_cons in Hp. destruct Hp as [Hb _].
    assert (Z0 : 0 < 256) by lia.
    destruct (sextets_lt a b 0 Ha Hb Z0) as (L0 & L1 & _ & _ & _ & L5). unfold sx0, sx1 in *.
    destruct (b64_tab _ L0) as (A0 & _ & B0 & _). destruct (b64_tab _ L1) as (A1 & _ & B1 & _).
    destruct (b64_tab _ L5) as (A2 & N2 & B2 & _).
    cbn [b64_groups app length b64_dec_line Nat.sub]. rewrite A0, A1, B0, B1. cbn [negb orb].
    rewrite (eqb_61_false _ N2), A2, B2. cbn [negb]. change (61 =? 61) with true. cbv iota.
    pose proof (group2_roundtrip a b Ha Hb) as G. unfold sx0, sx1 in G. cbv zeta in G.
    destruct G as [G0 G1]. rewrite G0, G1. reflexivity.
  - apply bytes_ok_cons in Hp. destruct Hp as [Ha Hp]. apply bytes_ok_cons in Hp. destruct Hp as [Hb Hp].
    apply bytes_ok_cons in Hp. destruct Hp as [Hc Hp].
    destruct (sextets_lt a b c Ha Hb Hc) as (L0 & L1 & L2 & L3 & _ & _). unfold sx0, sx1, sx2, sx3 in *.
    destruct (b64_tab _ L0) as (A0 & _ & B0 & _). destruct (b64_tab _ L1) as (A1 & _ & B1 & _).
    destruct (b64_tab _ L2) as (A2 & N2 & B2 & _). destruct (b64_tab _ L3) as (A3 & N3 & B3 & _).
    cbn [b64_groups app length b64_dec_line Nat.sub]. rewrite A0, A1, B0, B1. cbn [negb orb].
    rewrite (eqb_61_false _ N2), A2, B2. cbn [negb].
    rewrite (eqb_61_false _ N3), A3, B3. cbn [negb].
    pose proof (group3_roundtrip a b c Ha Hb Hc) as G. unfold sx0, sx1, sx2, sx3 in G. cbv zeta in G.
    destruct G as (G0 & G1 & G2). rewrite G0, G1, G2. rewrite IHp by assumption. reflexivity.
Qed.

(* ------------------------------------------------------------------ lines *)
Lemma asc_10 : asc 10 = 10. Proof. vm_compute. reflexivity. Qed.

Lemma get_line_ok : forall pre rest n, Forall (fun c => asc c = 1) pre ->
  get_line (pre ++ 10 :: rest) n = Some (S (n + length pre), 1%nat).
Proof.
  induction pre as [|c pre IH]; intros rest n H.
  - cbn [app get_line length]. rewrite asc_10. cbn. rewrite Nat.add_0_r. reflexivity.
  - inversion H; subst. cbn [app get_line length]. rewrite H2. cbn [N.eqb Pos.eqb].
    rewrite IH by assumption. f_equal. f_equal. lia.
Qed.

Lemma skipn_app_exact : forall (a b : list N) n, n = length a -> skipn n (a ++ b) = b.
Proof. intros a b n ->. rewrite skipn_app, skipn_all, Nat.sub_diag. reflexivity. Qed.

Lemma firstn_app_exact : forall (a b : list N) n, n = length a -> firstn n (a ++ b) = a.
Proof. intros a b n ->. rewrite firstn_app, firstn_all, Nat.sub_diag. cbn. apply app_nil_r. Qed.

Lemma UUDEC_96 : UUDEC 96 = 0. Proof. reflexivity. Qed.

Lemma uu_data_line : forall p f got rest, bytes_ok p -> p <> [] -> (length p <= 45)%nat ->
  uu_loop (S f) ST_READ_UU got (uu_encode p ++ rest) =
  match uu_loop f ST_READ_UU true rest with Some o' => Some (p ++ o') | None => None end.
Proof.
  intros p f got rest Hp Hne Hlen.
  assert (Hv : N.of_nat (length p) < 64) by lia.
  destruct (uu_tab _ Hv) as (A & B & C).
  unfold uu_encode. cbn [app]. rewrite <- app_assoc. cbn [app].
  set (c := UUENC (N.of_nat (length p))) in *.
  set (g := uu_groups p).
  assert (GL : get_line (c :: g ++ 10 :: rest) 0 = Some (S (S (length g)), 1%nat)).
  { change (c :: g ++ 10 :: rest) with ((c :: g) ++ 10 :: rest). rewrite get_line_ok.
    - reflexivity.
    - constructor; [exact C|]. eapply Forall_impl; [|apply uu_groups_ok; exact Hp].
      intros x [_ Hx]. exact Hx. }
  cbn [uu_loop]. rewrite GL.
  rewrite A, B, Nat2N.id. cbn [negb orb Nat.sub Nat.eqb].
  assert (GE : (length p <= length g)%nat).
  { unfold g. rewrite uu_groups_length. pose proof (Nat.div_mod (length p + 2) 3). 
    pose proof (Nat.mod_upper_bound (length p + 2) 3). lia. }
  rewrite Nat.sub_0_r.
  replace (length g <? length p)%nat with false by (symmetry; apply Nat.ltb_ge; exact GE).
  replace (skipn (S (S (length g))) (c :: g ++ 10 :: rest)) with rest.
  2:{ rewrite skipn_cons. change (g ++ 10 :: rest) with (g ++ [10] ++ rest). rewrite app_assoc.
      rewrite skipn_app_exact; [reflexivity|]. rewrite app_length. cbn. lia. }
  unfold g. rewrite uu_dec_groups by assumption.
  destruct (length p) eqn:E; [destruct p; [congruence|discriminate]|].
  reflexivity.
Qed.

Lemma b64_data_line : forall p f got rest, bytes_ok p -> p <> [] ->
  uu_loop (S f) ST_READ_BASE64 got (la_b64_encode p ++ rest) =
  match uu_loop f ST_READ_BASE64 true rest with Some o' => Some (p ++ o') | None => None end.
Proof.
  intros p f got rest Hp Hne.
  unfold la_b64_encode. rewrite <- app_assoc. cbn [app].
  destruct (b64_groups_head p Hp Hne) as (c & t & Eg & Nc & Vc).
  assert (GL : get_line (b64_groups p ++ 10 :: rest) 0 = Some (S (length (b64_groups p)), 1%nat)).
  { rewrite get_line_ok; [reflexivity|].
    eapply Forall_impl; [|apply b64_groups_ok; exact Hp]. intros x [_ Hx]. exact Hx. }
  pose proof (b64_dec_groups p Hp (10 :: rest)) as DG.
  assert (SK : skipn (S (length (b64_groups p))) (b64_groups p ++ 10 :: rest) = rest).
  { change (b64_groups p ++ 10 :: rest) with (b64_groups p ++ [10] ++ rest). rewrite app_assoc.
    rewrite skipn_app_exact; [reflexivity|]. rewrite app_length. cbn. lia. }
  revert GL DG SK. rewrite Eg. cbn [app]. intros GL DG SK.
  cbn [uu_loop]. rewrite GL. cbn [Nat.sub].
  rewrite Nat.sub_0_r in *.
  unfold at_ at 1. cbn [nth]. rewrite (eqb_61_false _ Nc). rewrite andb_false_r. cbn [andb].
  rewrite DG, SK.
  destruct p; [congruence|]. rewrite orb_true_r. reflexivity.
Qed.

(* ------------------------------------------------------------------ header *)
(* the mode prints as exactly three octal digits: always with the three-digit header variant,
   from 0100 on with the plain "%o" *)
Definition mode_ok (k : enc_kind) (m : N) : Prop := m < 512 /\ (k_mode_fixed3 k = true \/ 64 <= m).

Definition fmt_mode_check (k : enc_kind) (m : N) : bool :=
  if k_mode_fixed3 k || (64 <=? m) then
    match fmt_mode k m with
    | [d0; d1; d2] => is_octal d0 && is_octal d1 && is_octal d2 && in_ascii1 d0 && in_ascii1 d1 && in_ascii1 d2
    | _ => false
    end
  else true.

Lemma fmt_mode_check_true : forall k, all_below 512 (fmt_mode_check k) = true.
Proof. destruct k; vm_compute; reflexivity. Qed.

Lemma fmt_mode_3 : forall k m, mode_ok k m -> exists d0 d1 d2, fmt_mode k m = [d0; d1; d2] /\
  is_octal d0 = true /\ is_octal d1 = true /\ is_octal d2 = true /\ asc d0 = 1 /\ asc d1 = 1 /\ asc d2 = 1.
Proof.
  intros k m [Hm Hk]. pose proof (all_below_spec _ _ (fmt_mode_check_true k) m Hm) as E.
  unfold fmt_mode_check in E.
  replace (k_mode_fixed3 k || (64 <=? m)) with true in E.
  2:{ symmetry. destruct Hk as [Hk|Hk]; [rewrite Hk; reflexivity|]. apply orb_true_iff. right. apply N.leb_le. exact Hk. }
  destruct (fmt_mode k m) as [|d0 [|d1 [|d2 [|]]]]; try discriminate.
  repeat (apply andb_true_iff in E; destruct E as [E ?]). unfold in_ascii1 in *.
  repeat match goal with H : (_ =? _) = true |- _ => apply N.eqb_eq in H end.
  exists d0, d1, d2. repeat split; auto.
  unfold is_octal. rewrite E, H4. reflexivity.
Qed.

Definition name_ok (name : list N) : Prop :=
  name <> [] /\ Forall (fun c => 32 <= c <= 126) name /\ N.of_nat (length name) < 131000.

Definition data_state (k : enc_kind) : ustate :=
  match k with KUU => ST_READ_UU | KB64 => ST_READ_BASE64 end.

Lemma header_shape : forall k mode name d0 d1 d2 rest, fmt_mode k mode = [d0; d1; d2] ->
  enc_header k mode name ++ rest = (k_prefix k ++ [d0; d1; d2; 32] ++ name) ++ 10 :: rest.
Proof.
  intros. unfold enc_header. rewrite H. repeat rewrite <- app_assoc. reflexivity.
Qed.

Lemma header_step : forall k f got mode name rest, mode_ok k mode -> name_ok name ->
  uu_loop (S f) ST_FIND_HEAD got (enc_header k mode name ++ rest) = uu_loop f (data_state k) got rest.
Proof.
  intros k f got mode name rest Hm (Hne & Hpr & Hlen).
  destruct (fmt_mode_3 k mode Hm) as (d0 & d1 & d2 & E & O0 & O1 & O2 & A0 & A1 & A2).
  rewrite (header_shape k mode name d0 d1 d2 rest E).
  set (pre := k_prefix k ++ [d0; d1; d2; 32] ++ name).
  assert (PA : Forall (fun c => asc c = 1) pre).
  { unfold pre. apply Forall_app. split.
    - destruct k; repeat (constructor; [vm_compute; reflexivity|]); constructor.
    - repeat (constructor; [first [assumption | vm_compute; reflexivity]|]).
      eapply Forall_impl; [|exact Hpr]. intros c Hc. apply printable_asc. exact Hc. }
  pose proof (get_line_ok pre rest 0 PA) as GL. cbn [Nat.add] in GL.
  assert (SK : skipn (S (length pre)) (pre ++ 10 :: rest) = rest).
  { change (pre ++ 10 :: rest) with (pre ++ [10] ++ rest). rewrite app_assoc.
    rewrite skipn_app_exact; [reflexivity|]. rewrite app_length. cbn. lia. }
  assert (PL : length pre = (length (k_prefix k) + 4 + length name)%nat).
  { unfold pre. rewrite !app_length. cbn [length]. lia. }
  assert (NL : (1 <= length name)%nat) by (destruct name; [congruence|cbn; lia]).
  destruct k; unfold pre, k_prefix, uu_header_prefix, b64_header_prefix in *; cbn [app length] in *.
  - (* base64 *)
    cbn [uu_loop]. rewrite GL, SK. cbn [Nat.sub].
    replace (UUENCODE_BID_MAX_READ <=? _) with false
      by (symmetry; apply N.leb_gt; unfold UUENCODE_BID_MAX_READ; lia).
    unfold head_kind.
    replace (11 <=? _)%nat with true by (symmetry; apply Nat.leb_le; lia).
    replace (18 <=? _)%nat with true by (symmetry; apply Nat.leb_le; lia).
    cbn [starts_with lit_begin lit_begin64 N.eqb Pos.eqb andb].
    unfold at_. cbn [nth Nat.add]. rewrite O0, O1, O2. reflexivity.
  - (* uuencode *)
    cbn [uu_loop]. rewrite GL, SK. cbn [Nat.sub].
    replace (UUENCODE_BID_MAX_READ <=? _) with false
      by (symmetry; apply N.leb_gt; unfold UUENCODE_BID_MAX_READ; lia).
    unfold head_kind.
    replace (11 <=? _)%nat with true by (symmetry; apply Nat.leb_le; lia).
    cbn [starts_with lit_begin lit_begin64 N.eqb Pos.eqb andb].
    unfold at_. cbn [nth Nat.add]. rewrite O0, O1, O2. reflexivity.
Qed.

(* ------------------------------------------------------------------ body = pieces *)
Fixpoint chop (LB fuel : nat) (s : list N) : list (list N) :=
  match fuel with
  | O => []
  | S f => match s with
           | [] => []
           | _ => firstn LB s :: chop LB f (skipn LB s)
           end
  end.

Lemma enc_lines_chop : forall LB encl fuel s,
  enc_lines LB encl fuel s = concat (map encl (chop LB fuel s)).
Proof.
  induction fuel; intros s; [reflexivity|].
  destruct s as [|x s]; [reflexivity|].
  cbn [enc_lines chop map concat]. rewrite IHfuel. reflexivity.
Qed.

Lemma chop_concat : forall LB fuel s, (0 < LB)%nat -> (length s <= fuel)%nat -> concat (chop LB fuel s) = s.
Proof.
  induction fuel; intros s HLB Hlen.
  - destruct s; [reflexivity|cbn in Hlen; lia].
  - destruct s as [|x s]; [reflexivity|].
    cbn [chop concat]. rewrite IHfuel; [apply firstn_skipn|assumption|].
    rewrite skipn_length. cbn [length] in *. lia.
Qed.

Definition piece_ok (LB : nat) (p : list N) : Prop := bytes_ok p /\ p <> [] /\ (length p <= LB)%nat.

Lemma chop_pieces : forall LB fuel s, (0 < LB)%nat -> bytes_ok s -> Forall (piece_ok LB) (chop LB fuel s).
Proof.
  induction fuel; intros s HLB Hs; [constructor|].
  destruct s as [|x s]; [constructor|].
  cbn [chop]. constructor.
  - split; [apply bytes_ok_firstn; assumption|]. split.
    + destruct LB; [lia|]. cbn. discriminate.
    + apply firstn_le_length.
  - apply IHfuel; [assumption|]. apply bytes_ok_skipn. assumption.
Qed.

Lemma data_line : forall k p f got rest, piece_ok (k_LB k) p ->
  uu_loop (S f) (data_state k) got (k_line k p ++ rest) =
  match uu_loop f (data_state k) true rest with Some o' => Some (p ++ o') | None => None end.
Proof.
  intros k p f got rest (Hb & Hne & Hlen). destruct k.
  - apply b64_data_line; assumption.
  - apply uu_data_line; assumption.
Qed.

Lemma body_decode : forall k pieces f got rest r, Forall (piece_ok (k_LB k)) pieces ->
  (forall got', uu_loop f (data_state k) got' rest = Some r) ->
  uu_loop (length pieces + f) (data_state k) got (concat (map (k_line k) pieces) ++ rest) =
  Some (concat pieces ++ r).
Proof.
  induction pieces as [|p ps IH]; intros f got rest r HF HR.
  - cbn. apply HR.
  - inversion HF; subst. cbn [length Nat.add map concat]. rewrite <- !app_assoc.
    rewrite data_line by assumption. rewrite (IH f true rest r); auto.
Qed.

Lemma uu_trailer_decode : forall got f, uu_loop (S (S (S f))) ST_READ_UU got uu_trailer = Some [].
Proof. intros. vm_compute. reflexivity. Qed.

Lemma b64_trailer_decode : forall got f, uu_loop (S (S f)) ST_READ_BASE64 got b64_trailer = Some [].
Proof. intros. vm_compute. reflexivity. Qed.

Lemma trailer_decode : forall k got f, uu_loop (S (S (S f))) (data_state k) got (k_trailer k) = Some [].
Proof.
  intros. destruct k.
  - apply (b64_trailer_decode got (S f)).
  - apply uu_trailer_decode.
Qed.

Lemma k_LB_pos : forall k, (0 < k_LB k)%nat.
Proof. destruct k; vm_compute; lia. Qed.

Lemma encode_all_pieces : forall k mode name s,
  encode_all k mode name s =
  enc_header k mode name ++ (concat (map (k_line k) (chop (k_LB k) (length s) s)) ++ k_trailer k).
Proof. intros. unfold encode_all. rewrite enc_lines_chop. reflexivity. Qed.

Lemma decode_fuel : forall k mode name s fuel got, mode_ok k mode -> name_ok name -> bytes_ok s ->
  (length (chop (k_LB k) (length s) s) + 4 <= fuel)%nat ->
  uu_loop fuel ST_FIND_HEAD got (encode_all k mode name s) = Some s.
Proof.
  intros k mode name s fuel got Hm Hn Hs Hf.
  rewrite encode_all_pieces.
  set (ps := chop (k_LB k) (length s) s) in *.
  replace fuel with (S (length ps + S (S (S (fuel - length ps - 4))))) by lia.
  rewrite header_step by assumption.
  rewrite (body_decode k ps _ got (k_trailer k) []).
  - rewrite app_nil_r. unfold ps. f_equal. apply chop_concat; [apply k_LB_pos|lia].
  - unfold ps. apply chop_pieces; [apply k_LB_pos|assumption].
  - intros. apply trailer_decode.
Qed.

Lemma line_nonempty : forall k p, (1 <= length (k_line k p))%nat.
Proof. intros. destruct k; cbn; [unfold la_b64_encode; rewrite app_length; cbn; lia|lia]. Qed.

Lemma concat_lines_length : forall k ps, (length ps <= length (concat (map (k_line k) ps)))%nat.
Proof.
  induction ps; cbn [map concat length]; [lia|].
  rewrite app_length. pose proof (line_nonempty k a). lia.
Qed.

Theorem roundtrip : forall k mode name s, mode_ok k mode -> name_ok name -> bytes_ok s ->
  uu_decode (encode_all k mode name s) = Some s.
Proof.
  intros k mode name s Hm Hn Hs. unfold uu_decode.
  apply decode_fuel; try assumption.
  rewrite encode_all_pieces. rewrite !app_length.
  pose proof (concat_lines_length k (chop (k_LB k) (length s) s)).
  assert (2 <= length (enc_header k mode name))%nat.
  { unfold enc_header. rewrite !app_length. cbn [length]. lia. }
  assert (1 <= length (k_trailer k))%nat.
  { destruct k; cbn [k_trailer]; unfold b64_trailer, uu_trailer; cbn [length]; lia. }
  lia.
Qed.

(* ------------------------------------------------------------------ writer: chunking *)
Lemma split_at_some : forall n p a b, split_at n p = Some (a, b) ->
  p = a ++ b /\ length a = n.
Proof.
  induction n; intros p a b H; cbn [split_at] in H.
  - inversion H; subst. split; reflexivity.
  - destruct p as [|x t]; [discriminate|].
    destruct (split_at n t) as [[a' b']|] eqn:E; [|discriminate].
    inversion H; subst. destruct (IHn _ _ _ E) as [-> L]. split; [reflexivity|cbn; lia].
Qed.

Lemma split_at_none : forall n p, split_at n p = None -> (length p < n)%nat.
Proof.
  induction n; intros p H; cbn [split_at] in H; [discriminate|].
  destruct p as [|x t]; [cbn; lia|].
  destruct (split_at n t) as [[a' b']|] eqn:E; [discriminate|].
  apply IHn in E. cbn. lia.
Qed.

Definition lines_LB (LB : nat) (ls : list (list N)) : Prop := Forall (fun l => length l = LB) ls.

Lemma enc_full_spec : forall LB encl fuel p, (0 < LB)%nat -> (length p < fuel)%nat ->
  exists ls r, enc_full LB encl fuel p = Some (concat (map encl ls), r) /\
               p = concat ls ++ r /\ lines_LB LB ls /\ (length r < LB)%nat.
Proof.
  induction fuel; intros p HLB Hf; [lia|].
  cbn [enc_full]. destruct (split_at LB p) as [[line rest]|] eqn:E.
  - destruct (split_at_some _ _ _ _ E) as [-> L].
    destruct (IHfuel rest HLB) as (ls & r & E2 & -> & F & Hr).
    { rewrite app_length in Hf. lia. }
    rewrite E2. exists (line :: ls), r. cbn [map concat]. rewrite <- app_assoc.
    repeat split; auto. constructor; assumption.
  - apply split_at_none in E. exists [], p. cbn. repeat split; auto. constructor.
Qed.

Lemma flush_blocks_spec : forall fuel bs buf, (0 < bs)%nat -> (length buf < fuel)%nat ->
  exists blocks r, flush_blocks fuel bs buf = Some (blocks, r) /\ concat blocks ++ r = buf /\
                   lines_LB bs blocks /\ (length r < bs)%nat.
Proof.
  induction fuel; intros bs buf Hbs Hf; [lia|].
  cbn [flush_blocks]. destruct (split_at bs buf) as [[blk rest]|] eqn:E.
  - destruct (split_at_some _ _ _ _ E) as [-> L].
    destruct (IHfuel bs rest Hbs) as (bl & r & E2 & <- & F & Hr).
    { rewrite app_length in Hf. lia. }
    rewrite E2. exists (blk :: bl), r. cbn [concat]. rewrite <- app_assoc.
    repeat split; auto. constructor; assumption.
  - apply split_at_none in E. exists [], buf. cbn. repeat split; auto. constructor.
Qed.

Lemma enc_lines_struct : forall LB encl ls r fuel, (0 < LB)%nat -> lines_LB LB ls -> (length r < LB)%nat ->
  (length (concat ls ++ r) <= fuel)%nat ->
  enc_lines LB encl fuel (concat ls ++ r) =
  concat (map encl ls) ++ match r with [] => [] | _ => encl r end.
Proof.
  induction ls as [|l ls IH]; intros r fuel HLB HF Hr Hfuel.
  - cbn [concat map app]. destruct r as [|x r].
    + destruct fuel; reflexivity.
    + destruct fuel; [cbn in Hfuel; lia|]. cbn [enc_lines].
      rewrite firstn_all2 by lia. rewrite skipn_all2 by lia.
      destruct fuel; cbn; rewrite app_nil_r; reflexivity.
  - inversion HF; subst. cbn [concat map]. rewrite <- !app_assoc.
    destruct l as [|x l]; [cbn in HLB; lia|].
    destruct fuel; [cbn in Hfuel; lia|].
    cbn [app enc_lines].
    change (x :: l ++ concat ls ++ r) with ((x :: l) ++ concat ls ++ r).
    rewrite firstn_app_exact by reflexivity. rewrite skipn_app_exact by reflexivity.
    rewrite IH; auto. cbn [concat] in Hfuel. rewrite <- app_assoc in Hfuel. rewrite app_length in Hfuel.
    cbn [length] in *. lia.
Qed.

Section Writer.
  Variable LB : nat.
  Variable encl : list N -> list N.
  Variable bs : nat.
  Variable header : list N.
  Hypothesis HLB : (0 < LB)%nat.
  Hypothesis Hbs : (0 < bs)%nat.

  (* E = everything the encoder has forwarded so far, inp = everything written so far *)
  Definition WInv (st : wstate) (E inp : list N) : Prop :=
    exists ls, inp = concat ls ++ w_hold st /\ lines_LB LB ls /\ (length (w_hold st) < LB)%nat /\
               E ++ w_buf st = header ++ concat (map encl ls).

  Lemma enc_write_step : forall st E inp chunk, WInv st E inp ->
    exists st' blocks, enc_write LB encl bs st chunk = Some (st', blocks) /\
                       WInv st' (E ++ concat blocks) (inp ++ chunk).
  Proof.
    intros st E inp chunk (ls & Hinp & HF & Hh & HE).
    destruct chunk as [|c0 chunk0].
    { exists st, []. split; [reflexivity|]. cbn [concat]. rewrite !app_nil_r. exists ls. auto. }
    set (chunk := c0 :: chunk0) in *.
    unfold enc_write. fold chunk. change (match chunk with [] => Some (st, []) | _ => ?X end) with X.
    destruct (w_hold st) as [|h0 hold0] eqn:EH.
    - (* hold empty *)
      destruct (enc_full_spec LB encl (S (length chunk)) chunk HLB ltac:(lia)) as (ls' & r & E1 & Ec & F' & Hr).
      rewrite E1.
      destruct (flush_blocks_spec (S (length (w_buf st ++ concat (map encl ls')))) bs
                  (w_buf st ++ concat (map encl ls')) Hbs ltac:(lia)) as (blocks & buf' & E2 & Ecat & _ & _).
      rewrite E2. exists (mkW r buf'), blocks. split; [reflexivity|].
      exists (ls ++ ls'). cbn [w_hold w_buf]. repeat split.
      + rewrite Hinp, Ec, concat_app, app_nil_r, app_assoc. reflexivity.
      + apply Forall_app; split; assumption.
      + assumption.
      + rewrite <- app_assoc, Ecat, app_assoc, HE, map_app, concat_app, app_assoc. reflexivity.
    - (* hold not empty *)
      set (hold := h0 :: hold0) in *.
      set (need := (LB - length hold)%nat).
      set (hold' := hold ++ firstn need chunk).
      set (rest := skipn need chunk).
      destruct (length hold' <? LB)%nat eqn:Elt.
      + apply Nat.ltb_lt in Elt. exists (mkW hold' (w_buf st)), []. split; [reflexivity|].
        assert (Hall : firstn need chunk = chunk).
        { apply firstn_all2. unfold hold' in Elt. rewrite app_length, firstn_length in Elt. unfold need in *. lia. }
        exists ls. cbn [w_hold w_buf concat]. rewrite app_nil_r. repeat split; auto.
        unfold hold'. rewrite Hall, Hinp, app_assoc. reflexivity.
      + apply Nat.ltb_ge in Elt.
        assert (HL : length hold' = LB).
        { unfold hold' in *. rewrite app_length, firstn_length in *. unfold need in *. lia. }
        destruct (enc_full_spec LB encl (S (length rest)) rest HLB ltac:(lia)) as (ls' & r & E1 & Ec & F' & Hr).
        rewrite E1.
        destruct (flush_blocks_spec (S (length (w_buf st ++ encl hold' ++ concat (map encl ls')))) bs
                    (w_buf st ++ encl hold' ++ concat (map encl ls')) Hbs ltac:(lia)) as (blocks & buf' & E2 & Ecat & _ & _).
        rewrite E2. exists (mkW r buf'), blocks. split; [reflexivity|].
        exists (ls ++ hold' :: ls'). cbn [w_hold w_buf]. repeat split.
        * rewrite Hinp, concat_app. cbn [concat]. rewrite <- !app_assoc. f_equal.
          rewrite <- Ec. unfold hold', rest. rewrite <- app_assoc, firstn_skipn. reflexivity.
        * apply Forall_app; split; [assumption|]. constructor; assumption.
        * assumption.
        * rewrite <- app_assoc, Ecat, app_assoc, HE, map_app, concat_app. cbn [map concat].
          rewrite <- !app_assoc. reflexivity.
  Qed.
End Writer.

(* ------------------------------------------------------------------ client layer *)
Definition cinv (c : cstate) : Prop :=
  (c_bsz c = O -> c_pending c = []) /\ (0 < c_bsz c -> length (c_pending c) < c_bsz c)%nat.

(* blocks handed to the callback: all of size bsz when bsz > 0 *)
Definition blocks_full (bsz : nat) (out : list (list N)) : Prop :=
  (0 < bsz)%nat -> lines_LB bsz out.

Lemma client_write_spec : forall c data, cinv c ->
  exists c' out, client_write c data = Some (c', out) /\ cinv c' /\ c_bsz c' = c_bsz c /\
                 concat out ++ c_pending c' = c_pending c ++ data /\ blocks_full (c_bsz c) out.
Proof.
  intros c data Hc. pose proof Hc as [I0 I1]. destruct data as [|d0 data0].
  { exists c, []. cbn [client_write concat app]. rewrite app_nil_r.
    split; [reflexivity|]. split; [assumption|]. split; [reflexivity|]. split; [reflexivity|]. intros _. constructor. }
  set (data := d0 :: data0) in *.
  unfold client_write. fold data. change (match data with [] => Some (c, []) | _ => ?X end) with X.
  destruct (c_bsz c) as [|b] eqn:EB.
  - exists c, [data]. rewrite (I0 eq_refl). cbn [concat app]. rewrite !app_nil_r.
    split; [reflexivity|]. split; [assumption|]. split; [assumption|]. split; [reflexivity|]. intros H; lia.
  - set (bsz := S b) in *. assert (Hb : (0 < bsz)%nat) by (unfold bsz; lia). specialize (I1 Hb).
    destruct (c_pending c) as [|p0 pend0] eqn:EP.
    + destruct (flush_blocks_spec (S (length data)) bsz data Hb ltac:(lia)) as (bl & r & E & Ecat & F & Hr).
      rewrite E. exists (mkC bsz r), bl. cbn [c_bsz c_pending app].
      split; [reflexivity|]. split; [split; cbn [c_bsz c_pending]; intros; [lia|assumption]|].
      split; [reflexivity|]. split; [assumption|]. intros _. assumption.
    + set (pend := p0 :: pend0) in *.
      set (room := (bsz - length pend)%nat).
      set (pend' := pend ++ firstn room data).
      set (rest := skipn room data).
      destruct (flush_blocks_spec (S (length rest)) bsz rest Hb ltac:(lia)) as (bl & r & E & Ecat & F & Hr).
      rewrite E.
      destruct (length pend' =? bsz)%nat eqn:Efull.
      * apply Nat.eqb_eq in Efull. exists (mkC bsz ([] ++ r)), ([pend'] ++ bl).
        cbn [c_bsz c_pending app concat].
        split; [reflexivity|]. split; [split; cbn [c_bsz c_pending]; intros; [lia|assumption]|].
        split; [reflexivity|]. split.
        -- rewrite <- app_assoc, Ecat. unfold pend', rest. rewrite <- app_assoc, firstn_skipn. reflexivity.
        -- intros _. constructor; assumption.
      * apply Nat.eqb_neq in Efull.
        assert (Hlen : (length (firstn room data) < room)%nat).
        { unfold pend' in Efull. rewrite app_length in Efull. pose proof (firstn_le_length room data).
          pose proof (firstn_length room data). unfold room in *. lia. }
        assert (Hall : firstn room data = data).
        { apply firstn_all2. rewrite firstn_length in Hlen. lia. }
        assert (Hrest : rest = []).
        { unfold rest. apply skipn_all2. rewrite firstn_length in Hlen. lia. }
        rewrite Hrest in *. destruct bl as [|x bl].
        2:{ inversion F; subst. cbn [concat app] in Ecat. destruct x; [cbn in *; lia|discriminate]. }
        cbn [concat app] in Ecat. subst r.
        exists (mkC bsz (pend' ++ [])), []. cbn [c_bsz c_pending app concat]. rewrite app_nil_r.
        split; [reflexivity|]. split.
        { split; cbn [c_bsz c_pending]; intros; [lia|]. unfold pend'. rewrite app_length. unfold room in *. lia. }
        split; [reflexivity|]. split; [unfold pend'; rewrite Hall; reflexivity|]. intros _. constructor.
Qed.

Lemma client_feed_spec : forall blocks c, cinv c ->
  exists c' out, client_feed c blocks = Some (c', out) /\ cinv c' /\ c_bsz c' = c_bsz c /\
                 concat out ++ c_pending c' = c_pending c ++ concat blocks /\ blocks_full (c_bsz c) out.
Proof.
  induction blocks as [|b t IH]; intros c Hc.
  - exists c, []. cbn [client_feed concat app]. rewrite app_nil_r.
    split; [reflexivity|]. split; [assumption|]. split; [reflexivity|]. split; [reflexivity|]. intros _. constructor.
  - destruct (client_write_spec c b Hc) as (c1 & o1 & E1 & I1 & B1 & C1 & F1).
    destruct (IH c1 I1) as (c2 & o2 & E2 & I2 & B2 & C2 & F2).
    cbn [client_feed]. rewrite E1, E2. exists c2, (o1 ++ o2).
    split; [reflexivity|]. split; [assumption|]. split; [congruence|]. split.
    + rewrite concat_app, <- app_assoc, C2, app_assoc, C1. cbn [concat]. rewrite app_assoc. reflexivity.
    + intros H. apply Forall_app. split; [apply F1; assumption|]. rewrite <- B1. apply F2. rewrite B1. assumption.
Qed.

(* ------------------------------------------------------------------ whole writer *)
Section WriterLoop.
  Variable LB : nat.
  Variable encl : list N -> list N.
  Variable bs : nat.
  Variable header : list N.
  Hypothesis HLB : (0 < LB)%nat.
  Hypothesis Hbs : (0 < bs)%nat.

  (* CE = bytes the client callback has received *)
  Definition LInv (st : wstate) (c : cstate) (CE inp : list N) : Prop :=
    cinv c /\ WInv LB encl header st (CE ++ c_pending c) inp.

  Lemma writer_loop_spec : forall chunks st c CE inp, LInv st c CE inp ->
    exists st' c' out, writer_loop LB encl bs st c chunks = Some (st', c', out) /\
                       c_bsz c' = c_bsz c /\ blocks_full (c_bsz c) out /\
                       LInv st' c' (CE ++ concat out) (inp ++ concat chunks).
  Proof.
    induction chunks as [|ch t IH]; intros st c CE inp [Hc HW].
    - exists st, c, []. cbn [writer_loop concat]. rewrite !app_nil_r.
      split; [reflexivity|]. split; [reflexivity|]. split; [intros _; constructor|]. split; assumption.
    - destruct (enc_write_step LB encl bs header HLB Hbs st _ inp ch HW) as (st1 & blocks & E1 & W1).
      destruct (client_feed_spec blocks c Hc) as (c1 & o1 & E2 & I1 & B1 & C1 & F1).
      assert (L1 : LInv st1 c1 (CE ++ concat o1) (inp ++ ch)).
      { split; [assumption|]. rewrite <- app_assoc, C1, app_assoc. assumption. }
      destruct (IH st1 c1 _ _ L1) as (st2 & c2 & o2 & E3 & B2 & F2 & L2).
      cbn [writer_loop]. rewrite E1, E2, E3. exists st2, c2, (o1 ++ o2).
      split; [reflexivity|]. split; [congruence|]. split; [|split].
      + intros H. apply Forall_app. split; [apply F1; assumption|]. rewrite <- B1. apply F2. rewrite B1. assumption.
      + destruct L2 as [I2 _]. exact I2.
      + destruct L2 as [_ W2]. rewrite concat_app. cbn [concat]. rewrite !app_assoc in *. exact W2.
  Qed.
End WriterLoop.

Lemma Forall_removelast : forall (A : Type) (P : A -> Prop) (l : list A), Forall P l -> Forall P (removelast l).
Proof.
  induction l as [|a l IH]; intros H; [constructor|].
  inversion H; subst. cbn [removelast]. destruct l; [constructor|]. constructor; auto.
Qed.

Lemma compute_bs_pos : forall k bpb, 0 < compute_bs k bpb.
Proof.
  intros k bpb. unfold compute_bs. destruct k; cbn [k_default_bs]; unfold b64_default_bs, uu_default_bs.
  all: destruct (65536 <? bpb) eqn:E1; [apply N.ltb_lt in E1; lia|].
  all: destruct (bpb =? 0) eqn:E2; [lia|].
  all: apply N.ltb_ge in E1; apply N.eqb_neq in E2; lia.
Qed.

Theorem chunking : forall k bpb mode name chunks,
  exists blocks, run_writer k bpb mode name chunks = Some blocks /\
                 concat blocks = encode_all k (opt_mode k mode) (opt_name k name) (concat chunks) /\
                 (0 < bpb -> lines_LB (N.to_nat bpb) (removelast blocks)).
Proof.
  intros k bpb mode name chunks. unfold run_writer.
  set (bs := N.to_nat (compute_bs k bpb)).
  set (header := enc_header k (opt_mode k mode) (opt_name k name)).
  assert (Hbs : (0 < bs)%nat) by (unfold bs; pose proof (compute_bs_pos k bpb); lia).
  pose proof (k_LB_pos k) as HLB.
  assert (L0 : LInv (k_LB k) (k_line k) header (mkW [] header) (mkC (N.to_nat bpb) []) [] []).
  { split; [split; cbn; intros; [reflexivity|lia]|]. exists []. cbn. rewrite app_nil_r. repeat split; auto. constructor. }
  destruct (writer_loop_spec (k_LB k) (k_line k) bs header HLB Hbs chunks _ _ _ _ L0)
    as (st & c & o1 & E1 & B1 & F1 & [Ic (ls & Hinp & HF & Hh & HE)]).
  rewrite E1. cbn [app] in *.
  destruct (client_feed_spec (enc_close (k_line k) (k_trailer k) st) c Ic) as (c' & o2 & E2 & Ic' & B2 & C2 & F2).
  rewrite E2. eexists. split; [reflexivity|]. split.
  - rewrite !concat_app.
    assert (CC : concat (client_close c') = c_pending c') by (unfold client_close; destruct (c_pending c'); cbn; rewrite ?app_nil_r; reflexivity).
    rewrite CC, C2. unfold enc_close. cbn [concat]. rewrite app_nil_r.
    unfold encode_all. fold header. rewrite Hinp.
    rewrite (enc_lines_struct (k_LB k) (k_line k) ls (w_hold st)); auto.
    assert (HE' : concat o1 ++ c_pending c ++ w_buf st = header ++ concat (map (k_line k) ls)).
    { rewrite app_assoc. exact HE. }
    destruct (w_hold st); rewrite ?app_nil_r; rewrite !app_assoc in *; rewrite HE'; rewrite <- ?app_assoc; reflexivity.
  - intros Hbpb. cbn [c_bsz] in *. assert (Hp : (0 < N.to_nat bpb)%nat) by lia.
    specialize (F1 Hp). rewrite B1 in F2. specialize (F2 Hp).
    unfold client_close. destruct (c_pending c') as [|x p].
    + rewrite app_nil_r. assert (FA : lines_LB (N.to_nat bpb) (o1 ++ o2)) by (apply Forall_app; split; assumption).
      apply Forall_removelast. exact FA.
    + rewrite app_assoc. rewrite removelast_last. apply Forall_app; split; assumption.
Qed.

(* ------------------------------------------------------------------ the bidder accepts the writer's output *)
Definition hk (k : enc_kind) : nat := match k with KUU => 6%nat | KB64 => 13%nat end.

Lemma header_line : forall k mode name rest, mode_ok k mode -> name_ok name ->
  exists len, get_line (enc_header k mode name ++ rest) 0 = Some (S len, 1%nat) /\
              skipn (S len) (enc_header k mode name ++ rest) = rest /\
              head_kind (enc_header k mode name ++ rest) (S len) 1 = hk k /\
              N.of_nat (S len) < 131072 /\
              exists x y, enc_header k mode name ++ rest = x :: y.
Proof.
  intros k mode name rest Hm (Hne & Hpr & Hlen).
  destruct (fmt_mode_3 k mode Hm) as (d0 & d1 & d2 & E & O0 & O1 & O2 & A0 & A1 & A2).
  rewrite (header_shape k mode name d0 d1 d2 rest E).
  set (pre := k_prefix k ++ [d0; d1; d2; 32] ++ name).
  assert (PA : Forall (fun c => asc c = 1) pre).
  { unfold pre. apply Forall_app. split.
    - destruct k; repeat (constructor; [vm_compute; reflexivity|]); constructor.
    - repeat (constructor; [first [assumption | vm_compute; reflexivity]|]).
      eapply Forall_impl; [|exact Hpr]. intros c Hc. apply printable_asc. exact Hc. }
  pose proof (get_line_ok pre rest 0 PA) as GL. cbn [Nat.add] in GL.
  assert (SK : skipn (S (length pre)) (pre ++ 10 :: rest) = rest).
  { change (pre ++ 10 :: rest) with (pre ++ [10] ++ rest). rewrite app_assoc.
    rewrite skipn_app_exact; [reflexivity|]. rewrite app_length. cbn. lia. }
  assert (PL : length pre = (length (k_prefix k) + 4 + length name)%nat).
  { unfold pre. rewrite !app_length. cbn [length]. lia. }
  assert (NL : (1 <= length name)%nat) by (destruct name; [congruence|cbn; lia]).
  exists (length pre). split; [exact GL|]. split; [exact SK|].
  destruct k; unfold pre, k_prefix, uu_header_prefix, b64_header_prefix in *; cbn [app length] in *.
  - split; [|split; [lia|eexists; eexists; reflexivity]].
    unfold head_kind.
    replace (11 <=? _)%nat with true by (symmetry; apply Nat.leb_le; lia).
    replace (18 <=? _)%nat with true by (symmetry; apply Nat.leb_le; lia).
    cbn [starts_with lit_begin lit_begin64 N.eqb Pos.eqb andb].
    unfold at_. cbn [nth Nat.add]. rewrite O0, O1, O2. reflexivity.
  - split; [|split; [lia|eexists; eexists; reflexivity]].
    unfold head_kind.
    replace (11 <=? _)%nat with true by (symmetry; apply Nat.leb_le; lia).
    cbn [starts_with lit_begin lit_begin64 N.eqb Pos.eqb andb].
    unfold at_. cbn [nth Nat.add]. rewrite O0, O1, O2. reflexivity.
Qed.

Lemma bid_find_header : forall k f total mode name rest, mode_ok k mode -> name_ok name ->
  bid_find (S f) total 20 (enc_header k mode name ++ rest) = Some (hk k, 20, rest).
Proof.
  intros k f total mode name rest Hm Hn.
  destruct (header_line k mode name rest Hm Hn) as (len & GL & SK & HK & _ & x & y & Ed).
  revert GL SK HK. rewrite Ed. intros GL SK HK.
  cbn [bid_find]. rewrite GL, HK, SK. destruct k; reflexivity.
Qed.

Lemma bid_uu_chars_ok : forall ll g x, Forall uu_char_ok g -> (ll <= length g)%nat ->
  bid_uu_chars ll (g ++ x) = Some (skipn ll g ++ x).
Proof.
  induction ll; intros g x HF Hl; [reflexivity|].
  destruct g as [|c g]; [cbn in Hl; lia|]. inversion HF; subst. destruct H1 as [U _].
  cbn [app bid_uu_chars skipn]. rewrite U. apply IHll; [assumption|cbn in Hl; lia].
Qed.

Lemma bid_b64_chars_ok : forall g x, Forall b64_char_ok g -> bid_b64_chars (length g) (g ++ x) = Some x.
Proof.
  induction g as [|c g IH]; intros x HF; [reflexivity|].
  inversion HF; subst. destruct H1 as [U _]. cbn [app length bid_b64_chars]. rewrite U. apply IH. assumption.
Qed.

(* what follows a data line: another data line or the trailer *)
Definition tail_of (k : enc_kind) (ps : list (list N)) : list N :=
  concat (map (k_line k) ps) ++ k_trailer k.

Lemma uu_tail_head : forall ps, Forall (piece_ok 45) ps ->
  exists c t, tail_of KUU ps = c :: t /\ uuch c = true.
Proof.
  intros ps HF. destruct ps as [|p ps].
  - exists 96, [10; 101; 110; 100; 10]. split; [reflexivity|]. apply uu_char_ok_96.
  - inversion HF; subst. destruct H1 as (_ & _ & Hl).
    unfold tail_of. cbn [map concat k_line]. unfold uu_encode. cbn [app].
    eexists; eexists. split; [reflexivity|]. apply uu_tab. lia.
Qed.

Lemma nth_uu_groups : forall p i, bytes_ok p -> (i < length (uu_groups p))%nat -> uuch (nth i (uu_groups p) 0) = true.
Proof.
  intros p i Hp Hi. pose proof (uu_groups_ok p Hp) as F. rewrite Forall_forall in F.
  destruct (F (nth i (uu_groups p) 0)) as [U _]; [apply nth_In; exact Hi|exact U].
Qed.

Lemma bid_second_uu : forall p ps fl, piece_ok 45 p -> Forall (piece_ok 45) ps ->
  bid_second 6 fl (uu_encode p ++ tail_of KUU ps) = fl + 30.
Proof.
  intros p ps fl (Hp & Hne & Hlen) HF.
  assert (Hv : N.of_nat (length p) < 64) by lia.
  destruct (uu_tab _ Hv) as (A & B & C).
  destruct (uu_tail_head ps HF) as (tc & tt & Et & Ut).
  unfold uu_encode. cbn [app]. rewrite <- app_assoc. cbn [app].
  set (c := UUENC (N.of_nat (length p))) in *.
  set (g := uu_groups p).
  set (after := tail_of KUU ps) in *.
  assert (GL : get_line (c :: g ++ 10 :: after) 0 = Some (S (S (length g)), 1%nat)).
  { change (c :: g ++ 10 :: after) with ((c :: g) ++ 10 :: after). rewrite get_line_ok.
    - reflexivity.
    - constructor; [exact C|]. eapply Forall_impl; [|apply uu_groups_ok; exact Hp].
      intros x [_ Hx]. exact Hx. }
  assert (SK : skipn (S (S (length g))) (c :: g ++ 10 :: after) = after).
  { rewrite skipn_cons. change (g ++ 10 :: after) with (g ++ [10] ++ after). rewrite app_assoc.
    rewrite skipn_app_exact; [reflexivity|]. rewrite app_length. cbn. lia. }
  assert (GLen : length g = (4 * ((length p + 2) / 3))%nat) by apply uu_groups_length.
  assert (NZ : (1 <= length p)%nat) by (destruct p; [congruence|cbn; lia]).
  assert (GE : (length p + 1 <= length g)%nat).
  { pose proof (Nat.div_mod (length p + 2) 3). pose proof (Nat.mod_upper_bound (length p + 2) 3). lia. }
  unfold bid_second. rewrite GL, SK. rewrite A, B, Nat2N.id. cbn [negb].
  replace (S (S (length g)) - 1 - 1)%nat with (length g) by lia.
  replace (S (S (length g)) - 1 - length p - 1)%nat with (length g - length p)%nat by lia.
  replace (45 <? length p)%nat with false by (symmetry; apply Nat.ltb_ge; lia).
  replace (length g <? length p)%nat with false by (symmetry; apply Nat.ltb_ge; lia).
  rewrite (bid_uu_chars_ok (length p) g (10 :: after)); [|apply uu_groups_ok; exact Hp|lia].
  (* the zero-length-line variant does not apply: the line carries length p >= 1 bytes *)
  replace (length p =? 0)%nat with false by (symmetry; apply Nat.eqb_neq; lia).
  rewrite andb_false_r. cbn [andb].
  rewrite Et.
  destruct (length g - length p =? 1)%nat eqn:E1.
  - (* exactly one character left: taken as a check sum *)
    apply Nat.eqb_eq in E1.
    assert (SL : length (skipn (length p) g) = 1%nat) by (rewrite skipn_length; lia).
    destruct (skipn (length p) g) as [|x [|y l]] eqn:ES; try (cbn in SL; lia).
    assert (Ux : uuch x = true).
    { replace x with (nth (length p) g 0).
      - apply nth_uu_groups; [exact Hp|]. fold g. lia.
      - rewrite <- (firstn_skipn (length p) g) at 1. rewrite app_nth2; rewrite firstn_length_le by lia; [|lia].
        rewrite Nat.sub_diag, ES. reflexivity. }
    cbn [app]. unfold at_. cbn [nth]. rewrite Ux. cbn [orb andb skipn nth]. rewrite Ut. reflexivity.
  - apply Nat.eqb_neq in E1. cbn [andb].
    assert (G2 : (length p + 2 <= length g)%nat) by lia.
    assert (SL : (2 <= length (skipn (length p) g))%nat) by (rewrite skipn_length; lia).
    destruct (skipn (length p) g) as [|x [|y l]] eqn:ES; try (cbn in SL; lia).
    assert (Uy : uuch y = true).
    { replace y with (nth (S (length p)) g 0).
      - apply nth_uu_groups; [exact Hp|]. fold g. lia.
      - rewrite <- (firstn_skipn (length p) g) at 1. rewrite app_nth2; rewrite firstn_length_le by lia; [|lia].
        replace (S (length p) - length p)%nat with 1%nat by lia. rewrite ES. reflexivity. }
    cbn [app skipn]. unfold at_. cbn [nth]. rewrite Uy. reflexivity.
Qed.

Lemma b64_tail_cases : forall ps, Forall (piece_ok 57) ps ->
  tail_of KB64 ps = b64_trailer \/ exists c t, tail_of KB64 ps = c :: t /\ b64ch c = true.
Proof.
  intros ps HF. destruct ps as [|p ps]; [left; reflexivity|right].
  inversion HF; subst. destruct H1 as (Hp & Hne & _).
  destruct (b64_groups_head p Hp Hne) as (c & t & Eg & _ & Vc).
  unfold tail_of. cbn [map concat k_line]. unfold la_b64_encode. rewrite Eg. cbn [app].
  eexists; eexists. split; [reflexivity|exact Vc].
Qed.

Lemma bid_second_b64 : forall p ps fl, piece_ok 57 p -> Forall (piece_ok 57) ps ->
  bid_second 13 fl (la_b64_encode p ++ tail_of KB64 ps) = fl + 30 \/
  bid_second 13 fl (la_b64_encode p ++ tail_of KB64 ps) = fl + 40.
Proof.
  intros p ps fl (Hp & Hne & Hlen) HF.
  unfold la_b64_encode. rewrite <- app_assoc. cbn [app].
  set (after := tail_of KB64 ps) in *.
  destruct (b64_groups_head p Hp Hne) as (c & t & Eg & Nc & Vc).
  assert (GL : get_line (b64_groups p ++ 10 :: after) 0 = Some (S (length (b64_groups p)), 1%nat)).
  { rewrite get_line_ok; [reflexivity|].
    eapply Forall_impl; [|apply b64_groups_ok; exact Hp]. intros x [_ Hx]. exact Hx. }
  assert (SK : skipn (S (length (b64_groups p))) (b64_groups p ++ 10 :: after) = after).
  { change (b64_groups p ++ 10 :: after) with (b64_groups p ++ [10] ++ after). rewrite app_assoc.
    rewrite skipn_app_exact; [reflexivity|]. rewrite app_length. cbn. lia. }
  pose proof (bid_b64_chars_ok (b64_groups p) (10 :: after) (b64_groups_ok p Hp)) as BC.
  unfold bid_second.
  assert (NE : exists x y, b64_groups p ++ 10 :: after = x :: y) by (rewrite Eg; eexists; eexists; reflexivity).
  destruct NE as (x & y & ENE). revert GL SK BC. rewrite ENE. intros GL SK BC.
  rewrite GL, SK. replace (S (length (b64_groups p)) - 1)%nat with (length (b64_groups p)) by lia.
  (* the "====" variant does not apply: the line starts with an alphabet character *)
  assert (SW : starts_with [61; 61; 61; 61] (x :: y) = false).
  { rewrite Eg in ENE. cbn [app] in ENE. inversion ENE; subst x y.
    cbn [starts_with]. rewrite N.eqb_sym, (eqb_61_false _ Nc). reflexivity. }
  rewrite SW, andb_false_r.
  rewrite BC. cbn [skipn].
  destruct (starts_with [61; 61; 61; 61; 10] after && (5 <=? length after)%nat) eqn:E1; [right; reflexivity|].
  destruct (starts_with [61; 61; 61; 61; 13; 10] after && (6 <=? length after)%nat) eqn:E2; [right; reflexivity|].
  left. destruct (b64_tail_cases ps HF) as [Et|(tc & tt & Et & Vt)]; fold after in Et.
  - rewrite Et in E1. vm_compute in E1. discriminate.
  - rewrite Et. unfold at_. cbn [nth]. rewrite Vt. reflexivity.
Qed.

Lemma chop_first : forall LB s, s <> [] ->
  chop LB (length s) s = firstn LB s :: chop LB (length s - 1) (skipn LB s).
Proof.
  intros LB s Hne. destruct s as [|x s]; [congruence|].
  cbn [length]. replace (S (length s) - 1)%nat with (length s) by lia. reflexivity.
Qed.

Theorem bid_positive : forall k mode name s, mode_ok k mode -> name_ok name -> bytes_ok s -> s <> [] ->
  0 < uu_bid (encode_all k mode name s).
Proof.
  intros k mode name s Hm Hn Hs Hne.
  rewrite encode_all_pieces.
  assert (PS : Forall (piece_ok (k_LB k)) (chop (k_LB k) (length s) s)) by (apply chop_pieces; [apply k_LB_pos|assumption]).
  rewrite chop_first in * by assumption.
  inversion PS as [|p ps Hp Hps]; subst.
  set (p := firstn (k_LB k) s) in *. set (ps := chop (k_LB k) (length s - 1) (skipn (k_LB k) s)) in *.
  cbn [map concat]. rewrite <- app_assoc. fold (tail_of k ps).
  unfold uu_bid.
  destruct (header_line k mode name (k_line k p ++ tail_of k ps) Hm Hn) as (_ & _ & _ & _ & _ & x & y & Ed).
  rewrite Ed at 1. rewrite bid_find_header by assumption.
  destruct k; cbn [hk k_line].
  - destruct (bid_second_b64 p ps 20 Hp Hps) as [E|E]; rewrite E; lia.
  - rewrite (bid_second_uu p ps 20 Hp Hps). lia.
Qed.

Theorem reader_roundtrip : forall k mode name s, mode_ok k mode -> name_ok name -> bytes_ok s ->
  s <> [] -> uu_bid s = 0 ->
  read_uu_only (encode_all k mode name s) = Some ([ARCHIVE_FILTER_UU; ARCHIVE_FILTER_NONE], s).
Proof.
  intros k mode name s Hm Hn Hs Hne Hb.
  unfold read_uu_only, MAX_FILTERS. cbn [uu_reader].
  pose proof (bid_positive k mode name s Hm Hn Hs Hne) as P. apply N.ltb_lt in P. rewrite P.
  rewrite roundtrip by assumption. rewrite Hb. reflexivity.
Qed.

(* ------------------------------------------------------------------ abstract drive loop *)
Section DriveProofs.
  Variable zst : Type.
  Variable zcall : zst -> list N -> nat -> bool -> zst * nat * list N * bool.
  (* ghost view of the library state: input consumed / output produced since initialisation *)
  Variable zin zout : zst -> list N.
  Variable zfinished : zst -> Prop.
  (* chunk compositionality of the library call: it consumes a prefix of what it is offered,
     respects avail_out, and only appends to its input / output histories *)
  Hypothesis zcall_ok : forall z inp ao fin z' k o e, zcall z inp ao fin = (z', k, o, e) ->
    (k <= length inp)%nat /\ (length o <= ao)%nat /\ zin z' = zin z ++ firstn k inp /\ zout z' = zout z ++ o.
  (* Z_STREAM_END "can only occur in finishing case" *)
  Hypothesis zcall_noend : forall z inp ao z' k o e, zcall z inp ao false = (z', k, o, e) -> e = false.
  Hypothesis zcall_end : forall z inp ao fin z' k o, zcall z inp ao fin = (z', k, o, true) -> zfinished z'.

  Variable bsz : nat.
  Variable header : list N.

  Definition DInv (d : dstate zst) (FW : list N) : Prop :=
    FW ++ d_out zst d = header ++ zout (d_z zst d) /\ (length (d_out zst d) <= bsz)%nat.

  Lemma drive_spec : forall fuel fin d inp FW d' w, DInv d FW ->
    drive zst zcall fuel bsz fin d inp = Some (d', w) ->
    DInv d' (FW ++ concat w) /\ lines_LB bsz w /\
    (fin = false -> zin (d_z zst d') = zin (d_z zst d) ++ inp) /\
    (fin = true -> inp = [] -> zin (d_z zst d') = zin (d_z zst d) /\ zfinished (d_z zst d')).
  Proof.
    induction fuel; intros fin d inp FW d' w [HI HL] H; [discriminate|].
    cbn [drive] in H.
    (* flush of a full buffer *)
    set (full := (length (d_out zst d) =? bsz)%nat) in *.
    set (d1 := if full then mkD zst (d_z zst d) [] else d) in *.
    set (w1 := if full then [d_out zst d] else []) in *.
    assert (H' : (let '(d1, w1) := (d1, w1) in
                  match fin, inp with
                  | false, [] => Some (d1, w1)
                  | _, _ =>
                    let '(z', k, o, ended) := zcall (d_z zst d1) inp (bsz - length (d_out zst d1))%nat fin in
                    let d2 := mkD zst z' (d_out zst d1 ++ o) in
                    let inp' := skipn k inp in
                    if ended then Some (d2, w1)
                    else match fin, inp' with
                         | false, [] => Some (d2, w1)
                         | _, _ => match drive zst zcall fuel bsz fin d2 inp' with
                                   | Some (d3, w3) => Some (d3, w1 ++ w3)
                                   | None => None
                                   end
                         end
                  end) = Some (d', w)).
    { unfold d1, w1, full. destruct (length (d_out zst d) =? bsz)%nat; exact H. }
    clear H. cbv beta iota zeta in H'.
    assert (I1 : DInv d1 (FW ++ concat w1) /\ d_z zst d1 = d_z zst d /\ lines_LB bsz w1).
    { unfold d1, w1, full. destruct (length (d_out zst d) =? bsz)%nat eqn:EF.
      - apply Nat.eqb_eq in EF. unfold DInv. cbn [d_z d_out concat length]. rewrite !app_nil_r.
        split; [split; [exact HI|lia]|split; [reflexivity|constructor; [exact EF|constructor]]].
      - unfold DInv. cbn [concat]. rewrite app_nil_r.
        split; [split; [exact HI|exact HL]|split; [reflexivity|constructor]]. }
    destruct I1 as ([HI1 HL1] & Ez1 & F1).
    assert (Done : forall dd, DInv dd (FW ++ concat w1) -> zin (d_z zst dd) = zin (d_z zst d) ++ inp ->
                   Some (dd, w1) = Some (d', w) -> fin = false ->
                   DInv d' (FW ++ concat w) /\ lines_LB bsz w /\
                   (fin = false -> zin (d_z zst d') = zin (d_z zst d) ++ inp) /\
                   (fin = true -> inp = [] -> zin (d_z zst d') = zin (d_z zst d) /\ zfinished (d_z zst d'))).
    { intros dd Hdd Hz E Hf. inversion E; subst d' w. split; [exact Hdd|]. split; [exact F1|].
      split; [intros _; exact Hz|]. intros Ht. rewrite Hf in Ht. discriminate. }
    destruct (match fin, inp with false, [] => true | _, _ => false end) eqn:Eearly.
    { destruct fin; [discriminate|]. destruct inp; [|discriminate].
      apply (Done d1); [split; assumption|rewrite Ez1, app_nil_r; reflexivity|exact H'|reflexivity]. }
    assert (H2 : (let '(z', k, o, ended) := zcall (d_z zst d1) inp (bsz - length (d_out zst d1))%nat fin in
                    let d2 := mkD zst z' (d_out zst d1 ++ o) in
                    let inp' := skipn k inp in
                    if ended then Some (d2, w1)
                    else match fin, inp' with
                         | false, [] => Some (d2, w1)
                         | _, _ => match drive zst zcall fuel bsz fin d2 inp' with
                                   | Some (d3, w3) => Some (d3, w1 ++ w3)
                                   | None => None
                                   end
                         end) = Some (d', w)).
    { destruct fin; [exact H'|]. destruct inp; [discriminate|exact H']. }
    clear H' Eearly.
    destruct (zcall (d_z zst d1) inp (bsz - length (d_out zst d1))%nat fin) as [[[z' k] o] ended] eqn:EC.
    destruct (zcall_ok _ _ _ _ _ _ _ _ EC) as (Hk & Ho & Hzin & Hzout).
    cbv zeta in H2.
    set (d2 := mkD zst z' (d_out zst d1 ++ o)) in *.
    assert (I2 : DInv d2 (FW ++ concat w1)).
    { split; cbn [d2 d_out d_z].
      - rewrite app_assoc, HI1, Hzout, app_assoc. reflexivity.
      - rewrite app_length. lia. }
    destruct ended.
    - (* stream end *)
      inversion H2; subst. pose proof (zcall_end _ _ _ _ _ _ _ EC) as Fin.
      destruct fin.
      + split; [exact I2|]. split; [exact F1|]. split; [discriminate|].
        intros _ ->. cbn [d2 d_z]. split; [|exact Fin].
        rewrite Hzin, Ez1. destruct k; cbn; rewrite app_nil_r; reflexivity.
      + pose proof (zcall_noend _ _ _ _ _ _ _ EC). discriminate.
    - destruct (match fin, skipn k inp with false, [] => true | _, _ => false end) eqn:E3.
      + destruct fin; [discriminate|]. destruct (skipn k inp) eqn:ES; [|discriminate].
        assert (firstn k inp = inp).
        { rewrite <- (firstn_skipn k inp) at 2. rewrite ES, app_nil_r. reflexivity. }
        apply (Done d2); [exact I2|cbn [d2 d_z]; rewrite Hzin, Ez1; congruence|exact H2|reflexivity].
      + assert (H3 : match drive zst zcall fuel bsz fin d2 (skipn k inp) with
                     | Some (d3, w3) => Some (d3, w1 ++ w3)
                     | None => None
                     end = Some (d', w)).
        { destruct fin; [exact H2|]. destruct (skipn k inp); [discriminate|exact H2]. }
        clear H2. destruct (drive zst zcall fuel bsz fin d2 (skipn k inp)) as [[d3 w3]|] eqn:ER; [|discriminate].
        inversion H3; subst.
        destruct (IHfuel _ _ _ _ _ _ I2 ER) as (I3 & F3 & Zf & Zt).
        rewrite concat_app, app_assoc. split; [exact I3|]. split; [apply Forall_app; split; assumption|]. split.
        * intros Hf. rewrite (Zf Hf). cbn [d2 d_z]. rewrite Hzin, Ez1, <- app_assoc, firstn_skipn. reflexivity.
        * intros Ht ->. destruct (Zt Ht) as [Za Zb]; [destruct k; reflexivity|]. split; [|exact Zb].
          rewrite Za. cbn [d2 d_z]. rewrite Hzin, Ez1. destruct k; cbn; rewrite app_nil_r; reflexivity.
  Qed.

  Lemma drive_chunks_spec : forall fuel chunks d FW d' w, DInv d FW ->
    drive_chunks zst zcall fuel bsz d chunks = Some (d', w) ->
    DInv d' (FW ++ concat w) /\ lines_LB bsz w /\ zin (d_z zst d') = zin (d_z zst d) ++ concat chunks.
  Proof.
    induction chunks as [|c t IH]; intros d FW d' w HI H; cbn [drive_chunks] in H.
    - inversion H; subst. cbn [concat]. rewrite !app_nil_r. split; [exact HI|]. split; [constructor|reflexivity].
    - destruct (drive zst zcall fuel bsz false d c) as [[d1 w1]|] eqn:E1; [|discriminate].
      destruct (drive_chunks zst zcall fuel bsz d1 t) as [[d2 w2]|] eqn:E2; [|discriminate].
      inversion H; subst.
      destruct (drive_spec _ _ _ _ _ _ _ HI E1) as (I1 & F1 & Z1 & _).
      destruct (IH _ _ _ _ I1 E2) as (I2 & F2 & Z2).
      rewrite concat_app, app_assoc. split; [exact I2|]. split; [apply Forall_app; split; assumption|].
      rewrite Z2, (Z1 eq_refl). cbn [concat]. rewrite app_assoc. reflexivity.
  Qed.

  (* For EVERY partition of the input into write calls and every buffer size: if the loops
     terminate within the fuel, the library has been fed exactly the concatenation of the chunks,
     it has reported the end of the stream, and the bytes forwarded downstream are exactly the
     primed header followed by everything the library produced - in blocks of the buffer size
     except for the last one. *)
  Theorem drive_all_spec : forall fuel z0 chunks blocks,
    zin z0 = [] -> zout z0 = [] -> (length header <= bsz)%nat ->
    drive_all zst zcall fuel bsz z0 header chunks = Some blocks ->
    exists z, zfinished z /\ zin z = concat chunks /\ concat blocks = header ++ zout z /\
              lines_LB bsz (removelast blocks).
  Proof.
    intros fuel z0 chunks blocks Hi Ho Hh H. unfold drive_all in H.
    destruct (drive_chunks zst zcall fuel bsz (mkD zst z0 header) chunks) as [[d1 w1]|] eqn:E1; [|discriminate].
    destruct (drive zst zcall fuel bsz true d1 []) as [[d2 w2]|] eqn:E2; [|discriminate].
    inversion H; subst.
    assert (I0 : DInv (mkD zst z0 header) []).
    { split; cbn [d_out d_z app]; [rewrite Ho, app_nil_r; reflexivity|assumption]. }
    destruct (drive_chunks_spec _ _ _ _ _ _ I0 E1) as (I1 & F1 & Z1). cbn [app d_z] in *.
    destruct (drive_spec _ _ _ _ _ _ _ I1 E2) as ([I2 _] & F2 & _ & Zt).
    destruct (Zt eq_refl eq_refl) as [Za Zb].
    exists (d_z zst d2). split; [exact Zb|]. split; [rewrite Za, Z1, Hi; reflexivity|]. split.
    - rewrite !concat_app. cbn [concat]. rewrite app_nil_r, app_assoc. exact I2.
    - rewrite app_assoc, removelast_last. apply Forall_app; split; assumption.
  Qed.
End DriveProofs.

(* ------------------------------------------------------------------ member concatenation *)
Section MembersProofs.
  Variable bid : list N -> bool.
  Variable decomp1 : list N -> option (list N * list N).
  (* [is_member x s]: x is a complete compressed member for the payload s *)
  Variable is_member : list N -> list N -> Prop.
  (* the framing is self-delimiting and starts with the signature the bidder looks for *)
  Hypothesis member_decodes : forall x s rest, is_member x s -> decomp1 (x ++ rest) = Some (s, rest).
  Hypothesis member_bid : forall x s rest, is_member x s -> bid (x ++ rest) = true.
  Hypothesis member_nonempty : forall x s, is_member x s -> x <> [].

  Lemma members_read : forall xs ss fuel garbage,
    Forall2 is_member xs ss -> (length xs < fuel)%nat ->
    (garbage = [] \/ bid garbage = false) ->
    read_members bid decomp1 fuel (concat xs ++ garbage) = Some (concat ss).
  Proof.
    induction xs as [|x xs IH]; intros ss fuel garbage HF Hfuel Hg.
    - inversion HF; subst. cbn [concat app]. destruct fuel; [cbn in Hfuel; lia|].
      cbn [read_members]. destruct garbage; [reflexivity|].
      destruct Hg as [Hg|Hg]; [discriminate|]. rewrite Hg. reflexivity.
    - inversion HF as [|x' s xs' ss' Hm HF']; subst.
      destruct fuel; [cbn in Hfuel; lia|].
      cbn [concat]. rewrite <- app_assoc.
      pose proof (member_nonempty x s Hm) as Hne.
      destruct (x ++ concat xs ++ garbage) as [|c t] eqn:E.
      { destruct x; [congruence|discriminate]. }
      cbn [read_members]. rewrite <- E.
      rewrite (member_bid x s _ Hm), (member_decodes x s _ Hm).
      rewrite (IH ss' fuel garbage HF'); [reflexivity|cbn in Hfuel; lia|assumption].
  Qed.

  Theorem member_concat : forall xa a xb b, is_member xa a -> is_member xb b ->
    read_members bid decomp1 3 (xa ++ xb) = Some (a ++ b).
  Proof.
    intros xa a xb b Ha Hb.
    pose proof (members_read [xa; xb] [a; b] 3 [] (Forall2_cons _ _ Ha (Forall2_cons _ _ Hb (Forall2_nil _)))) as H.
    cbn [concat length] in H. rewrite !app_nil_r in H. apply H; [lia|left; reflexivity].
  Qed.
End MembersProofs.

(* the two together: two archives written through the drive loop with ANY chunkings and buffer
   sizes, concatenated, read back as the concatenation of the two inputs - for any codec whose
   calls are chunk-compositional and whose complete streams are self-delimiting *)
Section DriveMembers.
  Variable zst : Type.
  Variable zcall : zst -> list N -> nat -> bool -> zst * nat * list N * bool.
  Variable zin zout : zst -> list N.
  Variable zfinished : zst -> Prop.
  Variable z0 : zst.
  Variable header : list N.
  Variable bid : list N -> bool.
  Variable decomp1 : list N -> option (list N * list N).
  Hypothesis zcall_ok : forall z inp ao fin z' k o e, zcall z inp ao fin = (z', k, o, e) ->
    (k <= length inp)%nat /\ (length o <= ao)%nat /\ zin z' = zin z ++ firstn k inp /\ zout z' = zout z ++ o.
  Hypothesis zcall_noend : forall z inp ao z' k o e, zcall z inp ao false = (z', k, o, e) -> e = false.
  Hypothesis zcall_end : forall z inp ao fin z' k o, zcall z inp ao fin = (z', k, o, true) -> zfinished z'.
  Hypothesis z0_fresh : zin z0 = [] /\ zout z0 = [].
  (* decomp (comp_all s) = s, in self-delimiting form, for every finished library state *)
  Hypothesis codec_correct : forall z rest, zfinished z ->
    decomp1 ((header ++ zout z) ++ rest) = Some (zin z, rest) /\ bid ((header ++ zout z) ++ rest) = true.
  Hypothesis header_nonempty : header <> [].

  Theorem drive_member_concat : forall fuelA bszA chunksA blocksA fuelB bszB chunksB blocksB,
    (length header <= bszA)%nat -> (length header <= bszB)%nat ->
    drive_all zst zcall fuelA bszA z0 header chunksA = Some blocksA ->
    drive_all zst zcall fuelB bszB z0 header chunksB = Some blocksB ->
    read_members bid decomp1 3 (concat blocksA ++ concat blocksB) = Some (concat chunksA ++ concat chunksB).
  Proof.
    intros fuelA bszA chunksA blocksA fuelB bszB chunksB blocksB HA HB EA EB.
    destruct z0_fresh as [Zi Zo].
    destruct (drive_all_spec zst zcall zin zout zfinished zcall_ok zcall_noend zcall_end bszA header
                fuelA z0 chunksA blocksA Zi Zo HA EA) as (za & Fa & Ia & Ca & _).
    destruct (drive_all_spec zst zcall zin zout zfinished zcall_ok zcall_noend zcall_end bszB header
                fuelB z0 chunksB blocksB Zi Zo HB EB) as (zb & Fb & Ib & Cb & _).
    set (is_member := fun (x s : list N) => exists z, zfinished z /\ zin z = s /\ x = header ++ zout z).
    apply (member_concat bid decomp1 is_member).
    - intros x s rest (z & Fz & <- & ->). apply codec_correct. exact Fz.
    - intros x s rest (z & Fz & <- & ->). apply codec_correct. exact Fz.
    - intros x s (z & Fz & _ & ->) C. destruct header; [congruence|discriminate].
    - exists za. auto.
    - exists zb. auto.
  Qed.
End DriveMembers.

(* ------------------------------------------------------------------ the empty stream, the option borders *)
(* Stated for whichever variant of the code the translator found (Gen/Codec.v): the pinned tree
   has every variant flag false. *)
Definition k_bid_empty_fix (k : enc_kind) : bool :=
  match k with KUU => rd_uu_bid_empty_fix | KB64 => rd_b64_bid_empty_fix end.

Lemma encode_all_empty : forall k mode name, encode_all k mode name [] = enc_header k mode name ++ k_trailer k.
Proof. intros. unfold encode_all. reflexivity. Qed.

Lemma bid_second_trailer : forall k,
  bid_second (hk k) 20 (k_trailer k) =
  if k_bid_empty_fix k then match k with KUU => 50 | KB64 => 60 end else 0.
Proof. destruct k; vm_compute; reflexivity. Qed.

(* the bid on an empty stream: 0 on the pinned tree, accepted once the bidder knows the
   "zero-length line / end" and "====" forms *)
Theorem bid_empty : forall k mode name, mode_ok k mode -> name_ok name ->
  uu_bid (encode_all k mode name []) =
  if k_bid_empty_fix k then match k with KUU => 50 | KB64 => 60 end else 0.
Proof.
  intros k mode name Hm Hn. rewrite encode_all_empty. unfold uu_bid.
  destruct (header_line k mode name (k_trailer k) Hm Hn) as (_ & _ & _ & _ & _ & x & y & Ed).
  rewrite Ed at 1. rewrite bid_find_header by assumption. apply bid_second_trailer.
Qed.

Theorem read_empty : forall k mode name, mode_ok k mode -> name_ok name ->
  read_uu_only (encode_all k mode name []) =
  if k_bid_empty_fix k then Some ([ARCHIVE_FILTER_UU; ARCHIVE_FILTER_NONE], [])
  else Some ([ARCHIVE_FILTER_NONE], encode_all k mode name []).
Proof.
  intros k mode name Hm Hn. unfold read_uu_only, MAX_FILTERS. cbn [uu_reader].
  rewrite (bid_empty k mode name Hm Hn).
  destruct (k_bid_empty_fix k).
  - replace (0 <? match k with KB64 => 60 | KUU => 50 end) with true by (destruct k; reflexivity).
    rewrite roundtrip; [reflexivity|assumption|assumption|constructor].
  - reflexivity.
Qed.

Definition dash : list N := [45].

Lemma dash_ok : name_ok dash.
Proof. split; [discriminate|]. split; [repeat constructor; lia|vm_compute; reflexivity]. Qed.

(* mode option below 0100 with the plain "%o" header: not recognised, nothing decoded *)
Lemma uu_mode_below_0100 : uu_mode_fixed3 = false ->
  uu_bid (encode_all KUU 7 dash [0; 1]) = 0 /\ uu_decode (encode_all KUU 7 dash [0; 1]) = Some [].
Proof.
  intro H. vm_compute in H. first [discriminate H | (vm_compute; split; reflexivity)].
Qed.

(* a name option with a byte outside 0x20..0x7e ("caf" 0xc3 0xa9) that the writer stores as is *)
Definition cafe : list N := [99; 97; 102; 195; 169].
Lemma uu_name_not_printable : uu_name_printable_only = false ->
  opt_name KUU (Some cafe) = cafe /\
  uu_bid (encode_all KUU 420 (opt_name KUU (Some cafe)) [0; 1]) = 0 /\
  uu_decode (encode_all KUU 420 (opt_name KUU (Some cafe)) [0; 1]) = None.
Proof.
  intro H. vm_compute in H. first [discriminate H | (vm_compute; repeat split; reflexivity)].
Qed.

(* with the writer variant that refuses such names, whatever the option was, the stored name is
   printable *)
Lemma opt_name_printable : forall k o, k_name_printable_only k = true ->
  Forall (fun c => 32 <= c <= 126) (opt_name k o).
Proof.
  intros k o H.
  assert (D : Forall (fun c => 32 <= c <= 126) (k_default_name k)).
  { destruct k; vm_compute; repeat constructor; discriminate. }
  destruct o as [s|]; [|exact D].
  unfold opt_name, name_rejected. rewrite H. cbn [andb].
  destruct (existsb (fun c => (c <? 32) || (126 <? c)) s) eqn:E; [exact D|].
  apply Forall_forall. intros c Hc.
  destruct (N.lt_ge_cases c 32) as [L|L].
  { assert (existsb (fun c => (c <? 32) || (126 <? c)) s = true).
    { apply existsb_exists. exists c. split; [exact Hc|]. apply orb_true_iff. left. apply N.ltb_lt. exact L. }
    congruence. }
  destruct (N.lt_ge_cases 126 c) as [U|U].
  { assert (existsb (fun c => (c <? 32) || (126 <? c)) s = true).
    { apply existsb_exists. exists c. split; [exact Hc|]. apply orb_true_iff. right. apply N.ltb_lt. exact U. }
    congruence. }
  lia.
Qed.
