(* val -> val front end of the compress (.Z) decoder model.
   case = (bytes behind the two magic bytes)
   result = (0) when archive_read_open fails (parameters byte refused, or a fatal error in the first block), otherwise
            (1 data status oob)   status: 0 end of data, 1 fatal, 2 does not terminate *)
From Coq Require Import List ZArith NArith Bool.
From LA Require Import Base.Val Codec.LzwDefs.
Import ListNotations.

Definition run (v : val) : val :=
  match decode (bval (vnth (lval v) 0)) with
  | None => VL [VI 0]
  (* a fatal error in the first block is met by the format bidders: archive_read_open itself fails *)
  | Some ([], 1%N, false) => VL [VI 0]
  | Some (blocks, st, ob) => VL [VI 1; VB (concat blocks); VN st; Vbool ob]
  end.
