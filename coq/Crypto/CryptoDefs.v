(* Executable model of libarchive's own passphrase logic (property C20):
     - traditional PKWARE stream cipher  : archive_write_set_format_zip.c / archive_read_support_format_zip.c, trad_enc_*
     - AES-CTR driver over a block cipher : archive_cryptor.c, aes_ctr_init / aes_ctr_increase_counter / aes_ctr_update
     - passphrase candidate list          : archive_read_add_passphrase.c
     - reader decision logic              : archive_read_support_format_zip.c, init_traditional_PKWARE_decryption,
                                            init_WinZip_AES_decryption, check_authentication_code, CRC check of
                                            archive_read_format_zip_read_data
   Definitions only; lemmas are in CryptoProofs.v.  Bytes are N (values < 256 wherever the C type is uint8_t);
   every place where C arithmetic wraps has an explicit [mod]. *)
From Coq Require Import List ZArith NArith Bool.
From LA Require Import Base.Val Gen.Defines.
Import ListNotations.
Local Open Scope N_scope.

Definition M32 : N := 4294967296.
Definition MASK32 : N := 4294967295.
Definition w32 (x : N) : N := x mod M32.

(* ------------------------------------------------------------------ CRC-32 (zlib) *)
(* table generated from the reflected polynomial 0xEDB88320, one entry per byte value *)
Definition CRC_POLY : N := 3988292384.

Fixpoint crc_bits (k : nat) (c : N) : N :=
  match k with
  | O => c
  | S k' => crc_bits k' (if N.testbit c 0 then N.lxor CRC_POLY (N.shiftr c 1) else N.shiftr c 1)
  end.

Definition crc_table_gen : list N := map (fun n => crc_bits 8 (N.of_nat n)) (seq 0 256).
(* same list, normalised once so that the extracted model holds 256 literals *)
Definition crc_table : list N := Eval vm_compute in crc_table_gen.

Definition crc_byte (c b : N) : N :=
  N.lxor (nth (N.to_nat (N.land (N.lxor c b) 255)) crc_table 0) (N.shiftr c 8).

(* zlib's  crc32(crc, buf, len)  : pre- and post-conditioning with 0xffffffff *)
Definition zcrc32 (crc : N) (buf : list N) : N :=
  N.lxor (fold_left crc_byte buf (N.lxor (w32 crc) MASK32)) MASK32.

(* #define CRC32(c, b) (crc32(c ^ 0xffffffffUL, &b, 1) ^ 0xffffffffUL) *)
Definition CRC32 (c b : N) : N := N.lxor (zcrc32 (N.lxor c MASK32) [b]) MASK32.

(* ------------------------------------------------------------------ traditional PKWARE cipher *)
Record tkeys := mkKeys { k0 : N; k1 : N; k2 : N }.   (* uint32_t keys[3] *)

Definition trad_init_keys : tkeys := mkKeys 305419896 591751049 878082192.

(* keys[0] = CRC32(keys[0], c);
   keys[1] = (keys[1] + (keys[0] & 0xff)) * 134775813L + 1;     uint32 sum, then long product, stored in uint32
   t = (keys[1] >> 24) & 0xff;  keys[2] = CRC32(keys[2], t); *)
Definition trad_update_keys (k : tkeys) (c : N) : tkeys :=
  let n0 := w32 (CRC32 (k0 k) c) in
  let n1 := w32 (w32 (k1 k + N.land n0 255) * 134775813 + 1) in
  let t := N.land (N.shiftr n1 24) 255 in
  let n2 := w32 (CRC32 (k2 k) t) in
  mkKeys n0 n1 n2.

(* unsigned temp = keys[2] | 2;  return (uint8_t)((temp * (temp ^ 1)) >> 8) & 0xff;   32-bit unsigned product *)
Definition trad_decrypt_byte (k : tkeys) : N :=
  let temp := N.lor (k2 k) 2 in
  N.land (N.shiftr (w32 (temp * N.lxor temp 1)) 8) 255.

Fixpoint trad_enc_loop (k : tkeys) (inp : list N) : tkeys * list N :=
  match inp with
  | [] => (k, [])
  | t :: tl =>
    let o := N.lxor t (trad_decrypt_byte k) in
    let '(k', os) := trad_enc_loop (trad_update_keys k t) tl in
    (k', o :: os)
  end.

Fixpoint trad_dec_loop (k : tkeys) (inp : list N) : tkeys * list N :=
  match inp with
  | [] => (k, [])
  | c :: tl =>
    let t := N.lxor c (trad_decrypt_byte k) in
    let '(k', os) := trad_dec_loop (trad_update_keys k t) tl in
    (k', t :: os)
  end.

(* max = min(in_len, out_len) bytes are processed (lengths are below 2^32 at every call site) *)
Definition trad_encrypt_update (k : tkeys) (inp : list N) (out_len : nat) : tkeys * list N :=
  trad_enc_loop k (firstn (Nat.min (length inp) out_len) inp).
Definition trad_decrypt_update (k : tkeys) (inp : list N) (out_len : nat) : tkeys * list N :=
  trad_dec_loop k (firstn (Nat.min (length inp) out_len) inp).

(* writer's trad_enc_init *)
Definition trad_init (pw : list N) : tkeys := fold_left trad_update_keys pw trad_init_keys.

(* reader's trad_enc_init(ctx, pw, pw_len, key, key_len, &crcchk): (return value, crcchk, ctx) ;
   [old] is the context before the call (left untouched when key_len < 12) *)
Definition trad_init_reader (old : tkeys) (pw key : list N) : Z * N * tkeys :=
  if (length key <? 12)%nat then ((-1)%Z, 255, old)
  else
    let '(k, header) := trad_decrypt_update (trad_init pw) key 12 in
    (0%Z, nth 11 header 0, k).

(* init_traditional_pkware_encryption: 11 random bytes, then the check byte, encrypted with the fresh context *)
Definition trad_write_header (pw rnd11 : list N) (chk : N) : tkeys * list N :=
  trad_encrypt_update (trad_init pw) (firstn 11 rnd11 ++ [chk]) 12.

(* a whole body through a sequence of update calls; each call is (chunk, out_len) *)
Fixpoint trad_encrypt_chunks (k : tkeys) (chunks : list (list N * nat)) : tkeys * list N :=
  match chunks with
  | [] => (k, [])
  | (c, ol) :: tl =>
    let '(k1, o1) := trad_encrypt_update k c ol in
    let '(k2, o2) := trad_encrypt_chunks k1 tl in (k2, o1 ++ o2)
  end.
Fixpoint trad_decrypt_chunks (k : tkeys) (chunks : list (list N * nat)) : tkeys * list N :=
  match chunks with
  | [] => (k, [])
  | (c, ol) :: tl =>
    let '(k1, o1) := trad_decrypt_update k c ol in
    let '(k2, o2) := trad_decrypt_chunks k1 tl in (k2, o1 ++ o2)
  end.

(* ------------------------------------------------------------------ AES-CTR driver (archive_cryptor.c) *)
Definition AES_BLOCK_SIZE : nat := 16.

Record cctx := mkCctx {
  ckey : list N;      (* key[AES_MAX_KEY_SIZE], key_len = length *)
  nonce : list N;     (* nonce[16]: counter block *)
  ebuf : list N;      (* encr_buf[16] *)
  epos : nat          (* encr_pos *)
}.

(* for (j = 0; j < 8; j++) if (++nonce[j]) break;     bytes wrap at 256, only 8 bytes carry *)
Fixpoint incr_le (j : nat) (l : list N) : list N :=
  match j, l with
  | S j', b :: t =>
    let b' := (b + 1) mod 256 in
    if b' =? 0 then b' :: incr_le j' t else b' :: t
  | _, _ => l
  end.

Fixpoint xor_from (eb : list N) (pos : nat) (l : list N) : list N :=
  match l with
  | [] => []
  | b :: t => N.lxor b (nth pos eb 0) :: xor_from eb (S pos) t
  end.

Section CTR.
  (* the block cipher: AES-ECB encryption of one 16-byte block under a key *)
  Variable E : list N -> list N -> list N.

  (* key_len must be 16, 24 or 32; nonce zeroed; encr_pos = AES_BLOCK_SIZE.
     (encr_buf is left uninitialised by the C code and never read before the first encryption.) *)
  Definition aes_ctr_init (key : list N) : option cctx :=
    let n := length key in
    if ((n =? 16) || (n =? 24) || (n =? 32))%nat
    then Some (mkCctx key (repeat 0 16) (repeat 0 16) AES_BLOCK_SIZE)
    else None.

  Definition aes_ctr_increase_counter (c : cctx) : cctx :=
    mkCctx (ckey c) (incr_le 8 (nonce c)) (ebuf c) (epos c).
  Definition aes_ctr_encrypt_counter (c : cctx) : cctx :=
    mkCctx (ckey c) (nonce c) (E (ckey c) (nonce c)) (epos c).
  Definition set_pos (c : cctx) (p : nat) : cctx := mkCctx (ckey c) (nonce c) (ebuf c) p.
  Definition next_block (c : cctx) : cctx := aes_ctr_encrypt_counter (aes_ctr_increase_counter c).

  (* while (max - i >= AES_BLOCK_SIZE) { xor one block; i += 16; increase; encrypt; }
     result: context, output, unprocessed input.  None = fuel exhausted (never, see CryptoProofs). *)
  Fixpoint ctr_blocks (fuel : nat) (c : cctx) (inp : list N) : option (cctx * list N * list N) :=
    if (16 <=? length inp)%nat then
      match fuel with
      | O => None
      | S f =>
        let o := xor_from (ebuf c) 0 (firstn 16 inp) in
        match ctr_blocks f (next_block c) (skipn 16 inp) with
        | None => None
        | Some (c', os, rest) => Some (c', o ++ os, rest)
        end
      end
    else Some (c, [], inp).

  (* for (i = 0; i < max; ) { if (pos == 16) { increase; encrypt; while...; pos = 0; if (i >= max) break; }
                               out[i] = in[i] ^ ebuf[pos++]; i++; } *)
  Fixpoint ctr_loop (fuel : nat) (c : cctx) (inp : list N) : option (cctx * list N) :=
    match inp with
    | [] => Some (c, [])
    | b :: tl =>
      match fuel with
      | O => None
      | S f =>
        if (epos c =? AES_BLOCK_SIZE)%nat then
          match ctr_blocks (length inp) (next_block c) inp with
          | None => None
          | Some (c2, o, rest) =>
            let c3 := set_pos c2 0 in
            match rest with
            | [] => Some (c3, o)
            | b' :: tl' =>
              let ob := N.lxor b' (nth 0 (ebuf c3) 0) in
              match ctr_loop f (set_pos c3 1) tl' with
              | None => None
              | Some (c4, os) => Some (c4, o ++ ob :: os)
              end
            end
          end
        else
          let ob := N.lxor b (nth (epos c) (ebuf c) 0) in
          match ctr_loop f (set_pos c (S (epos c))) tl with
          | None => None
          | Some (c4, os) => Some (c4, ob :: os)
          end
      end
    end.

  (* aes_ctr_update(ctx, in, in_len, out, &out_len): result context, output (its length is the new *out_len) *)
  Definition aes_ctr_update (c : cctx) (inp : list N) (out_len : nat) : option (cctx * list N) :=
    let m := firstn (Nat.min (length inp) out_len) inp in
    ctr_loop (S (length m)) c m.

  Fixpoint ctr_chunks (c : cctx) (chunks : list (list N * nat)) : option (cctx * list N) :=
    match chunks with
    | [] => Some (c, [])
    | (ch, ol) :: tl =>
      match aes_ctr_update c ch ol with
      | None => None
      | Some (c1, o1) =>
        match ctr_chunks c1 tl with
        | None => None
        | Some (c2, o2) => Some (c2, o1 ++ o2)
        end
      end
    end.
End CTR.

(* ------------------------------------------------------------------ passphrase list (archive_read_add_passphrase.c) *)
Record pstate := mkPstate {
  items : list bytes;                (* passphrases.first ... : the linked list *)
  cand : Z;                          (* passphrases.candidate (int); calloc gives 0 *)
  has_cb : bool;                     (* passphrases.callback != NULL *)
  cb_script : list (option bytes)    (* what the client's callback answers, call after call; [] = NULL for ever *)
}.

Definition pp_init : pstate := mkPstate [] 0 false [].

(* archive_read_add_passphrase: empty is refused; otherwise add_passphrase_to_tail *)
Definition add_passphrase (s : pstate) (pw : bytes) : pstate * Z :=
  match pw with
  | [] => (s, ARCHIVE_FAILED)
  | _ => (mkPstate (items s ++ [pw]) (cand s) (has_cb s) (cb_script s), ARCHIVE_OK)
  end.

Definition set_callback (s : pstate) (script : list (option bytes)) : pstate :=
  mkPstate (items s) (cand s) true script.

Definition reset_passphrase (s : pstate) : pstate :=
  mkPstate (items s) (-1)%Z (has_cb s) (cb_script s).

(* remove_passphrases_from_head followed by add_passphrase_to_tail *)
Definition rotate (l : list bytes) : list bytes :=
  match l with
  | [] => []
  | x :: t => t ++ [x]
  end.

(* the tail of __archive_read_next_passphrase: no list candidate (p == NULL), so the client's callback, if
   any, is asked; [its], [cd] are the list and the candidate counter computed so far *)
Definition ask_callback (s : pstate) (its : list bytes) (cd : Z) : pstate * option bytes :=
  if has_cb s then
    match cb_script s with
    | [] => (mkPstate its cd true [], None)
    | None :: rest => (mkPstate its cd true rest, None)
    | Some pw :: rest =>
      (* new_read_passphrase + insert_passphrase_to_head; candidate = 1 *)
      (mkPstate (pw :: its) 1%Z true rest, Some pw)
    end
  else (mkPstate its cd false (cb_script s), None).

Definition next_passphrase (s : pstate) : pstate * option bytes :=
  let '(its, cd, p) :=
    if (cand s <? 0)%Z then
      (* count the list; first item *)
      (items s, Z.of_nat (length (items s)), hd_error (items s))
    else if (1 <? cand s)%Z then
      let r := rotate (items s) in (r, (cand s - 1)%Z, hd_error r)
    else if (cand s =? 1)%Z then
      (* all candidates failed; rotate once more unless the list has a single item *)
      (match items s with
       | _ :: _ :: _ => rotate (items s)
       | _ => items s
       end, 0%Z, None)
    else (items s, cand s, None) in
  match p with
  | Some pw => (mkPstate its cd (has_cb s) (cb_script s), Some pw)
  | None => ask_callback s its cd
  end.

(* n successive calls *)
Fixpoint next_n (n : nat) (s : pstate) : pstate * list (option bytes) :=
  match n with
  | O => (s, [])
  | S n' =>
    let '(s1, r) := next_passphrase s in
    let '(s2, rs) := next_n n' s1 in (s2, r :: rs)
  end.

(* every passphrase the reader can ever be handed from this state *)
Fixpoint somes {A} (l : list (option A)) : list A :=
  match l with
  | [] => []
  | Some x :: t => x :: somes t
  | None :: t => somes t
  end.
Definition pool (s : pstate) : list bytes :=
  items s ++ (if has_cb s then somes (cb_script s) else []).

(* ------------------------------------------------------------------ reader decision logic *)
Inductive rerr :=
| ErrNone
| ErrRequired      (* "Passphrase required for this entry" *)
| ErrIncorrect     (* "Incorrect passphrase" *)
| ErrTooMany       (* "Too many incorrect passphrases" *)
| ErrBadMac        (* "ZIP bad Authentication code" *)
| ErrBadCrc        (* "ZIP bad CRC" *)
| ErrCorrupted     (* "Corrupted ZIP file data" (unknown AES strength) *)
| ErrCrypto.       (* cipher set-up failed / internal *)

Definition rerr_code (e : rerr) : Z :=
  match e with
  | ErrNone => 0 | ErrRequired => 1 | ErrIncorrect => 2 | ErrTooMany => 3
  | ErrBadMac => 4 | ErrBadCrc => 5 | ErrCorrupted => 6 | ErrCrypto => 7
  end%Z.

Fixpoint bytes_eqb (a b : list N) : bool :=
  match a, b with
  | [], [] => true
  | x :: a', y :: b' => (x =? y) && bytes_eqb a' b'
  | _, _ => false
  end.

Definition AUTH_CODE_SIZE : nat := 10.
Definition RETRY_LIMIT : N := 10000.

Record read_result := mkRes {
  r_ps : pstate;          (* passphrase list afterwards *)
  r_status : Z;           (* worst status archive_read_data reported for the entry *)
  r_err : rerr;
  r_data : list N         (* bytes handed to the client with ARCHIVE_OK before that status *)
}.

(* ---- traditional PKWARE entries *)
Record trad_entry := mkTradEntry {
  te_hdr : list N;        (* 12-byte encryption header *)
  te_decdat : N;          (* check byte from the local header (high byte of CRC or of DOS time) *)
  te_cipher : list N;
  te_crc : N              (* CRC-32 of the plaintext as recorded in the archive *)
}.

(* for (retry = 0;; retry++) { next candidate; NULL -> error; trad_enc_init; check byte equal -> break;
                               if (retry > 10000) error; } *)
Fixpoint trad_try (fuel : nat) (retry : N) (ps : pstate) (old : tkeys) (e : trad_entry)
  : pstate * (rerr + tkeys) :=
  match fuel with
  | O => (ps, inl ErrCrypto)
  | S f =>
    let '(ps1, p) := next_passphrase ps in
    match p with
    | None => (ps1, inl (if 0 <? retry then ErrIncorrect else ErrRequired))
    | Some pw =>
      let '(r, chk, k) := trad_init_reader old pw (te_hdr e) in
      if ((r =? 0)%Z && (chk =? te_decdat e))%bool then (ps1, inr k)
      else if RETRY_LIMIT <? retry then (ps1, inl ErrTooMany)
      else trad_try f (retry + 1) ps1 k e
    end
  end.

Definition TRY_FUEL : nat := 10003.

Definition read_trad_entry (ps : pstate) (e : trad_entry) : read_result :=
  match trad_try TRY_FUEL 0 ps trad_init_keys e with
  | (ps1, inl err) => mkRes ps1 ARCHIVE_FAILED err []
  | (ps1, inr k) =>
    let '(_, plain) := trad_decrypt_update k (te_cipher e) (length (te_cipher e)) in
    if zcrc32 0 plain =? te_crc e then mkRes ps1 ARCHIVE_OK ErrNone plain
    else mkRes ps1 ARCHIVE_FAILED ErrBadCrc plain
  end.

(* what the writer produces for a stored body *)
Definition write_trad_entry (pw rnd11 : list N) (chk : N) (body : list N) : trad_entry :=
  let '(k, hdr) := trad_write_header pw rnd11 chk in
  let '(_, cipher) := trad_encrypt_update k body (length body) in
  mkTradEntry hdr chk cipher (zcrc32 0 body).

(* ---- WinZip AES entries, over abstract PBKDF2-SHA1, HMAC-SHA1 and AES *)
Record aes_entry := mkAesEntry {
  ae_strength : N;        (* 1 = 128, 2 = 192, 3 = 256 *)
  ae_salt : list N;
  ae_pv : list N;         (* 2-byte password verification value *)
  ae_cipher : list N;
  ae_mac : list N;        (* 10-byte authentication code *)
  ae_crc : option N       (* Some crc for vendor version AE-1, None for AE-2 *)
}.

Definition aes_lens (strength : N) : option (nat * nat) :=   (* salt_len, key_len *)
  if strength =? 1 then Some (8, 16)%nat
  else if strength =? 2 then Some (12, 24)%nat
  else if strength =? 3 then Some (16, 32)%nat
  else None.

Section Reader.
  Variable pbkdf2 : list N -> list N -> nat -> list N.   (* passphrase, salt, derived length (1000 rounds) *)
  Variable hmac : list N -> list N -> list N.            (* key, message -> 20 bytes *)
  Variable E : list N -> list N -> list N.

  Definition pv_ok (dk : list N) (klen : nat) (pv : list N) : bool :=
    (nth (2 * klen) dk 0 =? nth 0 pv 0) && (nth (2 * klen + 1) dk 0 =? nth 1 pv 0).

  Fixpoint aes_try (fuel : nat) (retry : N) (ps : pstate) (klen : nat) (e : aes_entry)
    : pstate * (rerr + list N) :=
    match fuel with
    | O => (ps, inl ErrCrypto)
    | S f =>
      let '(ps1, p) := next_passphrase ps in
      match p with
      | None => (ps1, inl (if 0 <? retry then ErrIncorrect else ErrRequired))
      | Some pw =>
        let dk := pbkdf2 pw (ae_salt e) (2 * klen + 2) in
        if pv_ok dk klen (ae_pv e) then (ps1, inr dk)
        else if RETRY_LIMIT <? retry then (ps1, inl ErrTooMany)
        else aes_try f (retry + 1) ps1 klen e
      end
    end.

  (* after a candidate has been accepted: cipher and HMAC set-up from the derived key, decryption, then
     check_authentication_code and (vendor version AE-1 only) the CRC check at the end of the entry *)
  Definition read_aes_tail (ps1 : pstate) (klen : nat) (dk : list N) (e : aes_entry) : read_result :=
    match aes_ctr_init (firstn klen dk) with
    | None => mkRes ps1 ARCHIVE_FAILED ErrCrypto []
    | Some c =>
      match aes_ctr_update E c (ae_cipher e) (length (ae_cipher e)) with
      | None => mkRes ps1 ARCHIVE_FAILED ErrCrypto []
      | Some (_, plain) =>
        let m := hmac (firstn klen (skipn klen dk)) (ae_cipher e) in
        (* check_authentication_code: memcmp over 10 bytes; mismatch is reported as ARCHIVE_WARN *)
        if bytes_eqb (firstn AUTH_CODE_SIZE m) (ae_mac e) then
          match ae_crc e with
          | Some crc =>
            if zcrc32 0 plain =? crc then mkRes ps1 ARCHIVE_OK ErrNone plain
            else mkRes ps1 ARCHIVE_FAILED ErrBadCrc plain
          | None => mkRes ps1 ARCHIVE_OK ErrNone plain
          end
        else mkRes ps1 ARCHIVE_WARN ErrBadMac plain
      end
    end.

  Definition read_aes_entry (ps : pstate) (e : aes_entry) : read_result :=
    match aes_lens (ae_strength e) with
    | None => mkRes ps ARCHIVE_FATAL ErrCorrupted []
    | Some (slen, klen) =>
      match aes_try TRY_FUEL 0 ps klen e with
      | (ps1, inl err) => mkRes ps1 ARCHIVE_FAILED err []
      | (ps1, inr dk) => read_aes_tail ps1 klen dk e
      end
    end.

  (* init_winzip_aes_encryption + the store path of archive_write_zip_data + finish_entry *)
  Definition write_aes_entry (strength : N) (pw salt body : list N) (ae2 : bool) : option aes_entry :=
    match aes_lens strength with
    | None => None
    | Some (slen, klen) =>
      let dk := pbkdf2 pw salt (2 * klen + 2) in
      match aes_ctr_init (firstn klen dk) with
      | None => None
      | Some c =>
        match aes_ctr_update E c body (length body) with
        | None => None
        | Some (_, cipher) =>
          Some (mkAesEntry strength salt [nth (2 * klen) dk 0; nth (2 * klen + 1) dk 0] cipher
                           (firstn AUTH_CODE_SIZE (hmac (firstn klen (skipn klen dk)) cipher))
                           (if ae2 then None else Some (zcrc32 0 body)))
        end
      end
    end.
End Reader.
