(* Lemmas about the model of CryptoDefs.v (property C20).  Stdlib only, no axioms. *)
From Coq Require Import List ZArith NArith Bool Lia Arith PeanoNat.
From LA Require Import Base.Val Gen.Defines Crypto.CryptoDefs.
Import ListNotations.
Local Open Scope N_scope.

(* ------------------------------------------------------------------ generic *)
Lemma lxor_cancel_r : forall t d, N.lxor (N.lxor t d) d = t.
Proof. intros. rewrite N.lxor_assoc, N.lxor_nilpotent, N.lxor_0_r. reflexivity. Qed.

Lemma crc_table_is_generated : crc_table = crc_table_gen.
Proof. vm_compute. reflexivity. Qed.

Lemma crc_table_length : length crc_table = 256%nat.
Proof. reflexivity. Qed.

(* a call processes its whole input when the output buffer is at least as long (true at every call site) *)
Definition chunk_ok (c : list N * nat) : Prop := (length (fst c) <= snd c)%nat.
Definition body_of (chunks : list (list N * nat)) : list N := concat (map fst chunks).

Lemma firstn_min_all : forall (l : list N) ol, (length l <= ol)%nat -> firstn (Nat.min (length l) ol) l = l.
Proof. intros. rewrite Nat.min_l by assumption. apply firstn_all. Qed.

(* ------------------------------------------------------------------ traditional PKWARE *)
Lemma trad_enc_loop_app : forall a b k,
  trad_enc_loop k (a ++ b) =
  let '(k1, o1) := trad_enc_loop k a in
  let '(k2, o2) := trad_enc_loop k1 b in (k2, o1 ++ o2).
Proof.
  induction a as [|t a IH]; intros b k; cbn [trad_enc_loop app].
  - destruct (trad_enc_loop k b); reflexivity.
  - rewrite IH. destruct (trad_enc_loop (trad_update_keys k t) a) as [k1 o1].
    destruct (trad_enc_loop k1 b) as [k2 o2]. reflexivity.
Qed.

Lemma trad_dec_loop_app : forall a b k,
  trad_dec_loop k (a ++ b) =
  let '(k1, o1) := trad_dec_loop k a in
  let '(k2, o2) := trad_dec_loop k1 b in (k2, o1 ++ o2).
Proof.
  induction a as [|t a IH]; intros b k; cbn [trad_dec_loop app].
  - destruct (trad_dec_loop k b); reflexivity.
  - rewrite IH. destruct (trad_dec_loop _ a) as [k1 o1].
    destruct (trad_dec_loop k1 b) as [k2 o2]. reflexivity.
Qed.

(* the invariant of the round trip: both sides hold the same keys after every byte *)
Lemma trad_dec_enc_loop : forall inp k k' out,
  trad_enc_loop k inp = (k', out) -> trad_dec_loop k out = (k', inp).
Proof.
  induction inp as [|t inp IH]; intros k k' out H; cbn [trad_enc_loop] in H.
  - inversion H; subst. reflexivity.
  - destruct (trad_enc_loop (trad_update_keys k t) inp) as [k1 os] eqn:E1.
    inversion H; subst. cbn [trad_dec_loop]. rewrite lxor_cancel_r.
    rewrite (IH _ _ _ E1). reflexivity.
Qed.

Lemma trad_enc_loop_length : forall inp k, length (snd (trad_enc_loop k inp)) = length inp.
Proof.
  induction inp as [|t inp IH]; intros k; cbn [trad_enc_loop]; [reflexivity|].
  specialize (IH (trad_update_keys k t)). destruct (trad_enc_loop (trad_update_keys k t) inp).
  cbn in *. congruence.
Qed.

Lemma trad_encrypt_chunks_whole : forall chunks k,
  Forall chunk_ok chunks -> trad_encrypt_chunks k chunks = trad_enc_loop k (body_of chunks).
Proof.
  induction chunks as [|[c ol] tl IH]; intros k H; [reflexivity|].
  inversion H as [|? ? Hc Ht]; subst. unfold chunk_ok in Hc; cbn in Hc.
  cbn [trad_encrypt_chunks body_of map concat fst]. unfold trad_encrypt_update.
  rewrite firstn_min_all by assumption. rewrite trad_enc_loop_app.
  destruct (trad_enc_loop k c) as [k1 o1]. rewrite (IH k1 Ht). reflexivity.
Qed.

Lemma trad_decrypt_chunks_whole : forall chunks k,
  Forall chunk_ok chunks -> trad_decrypt_chunks k chunks = trad_dec_loop k (body_of chunks).
Proof.
  induction chunks as [|[c ol] tl IH]; intros k H; [reflexivity|].
  inversion H as [|? ? Hc Ht]; subst. unfold chunk_ok in Hc; cbn in Hc.
  cbn [trad_decrypt_chunks body_of map concat fst]. unfold trad_decrypt_update.
  rewrite firstn_min_all by assumption. rewrite trad_dec_loop_app.
  destruct (trad_dec_loop k c) as [k1 o1]. rewrite (IH k1 Ht). reflexivity.
Qed.

(* for all passwords, bodies and partitions of the body (writer) and of the ciphertext (reader) *)
Theorem trad_roundtrip : forall pw ce cd k' cipher,
  Forall chunk_ok ce -> Forall chunk_ok cd ->
  trad_encrypt_chunks (trad_init pw) ce = (k', cipher) ->
  body_of cd = cipher ->
  trad_decrypt_chunks (trad_init pw) cd = (k', body_of ce).
Proof.
  intros pw ce cd k' cipher He Hd Henc Hcut.
  rewrite trad_encrypt_chunks_whole in Henc by assumption.
  rewrite trad_decrypt_chunks_whole by assumption. rewrite Hcut.
  apply trad_dec_enc_loop. assumption.
Qed.

(* the ciphertext does not depend on how the body is cut into update calls *)
Theorem trad_partition_independent : forall k c1 c2,
  Forall chunk_ok c1 -> Forall chunk_ok c2 -> body_of c1 = body_of c2 ->
  trad_encrypt_chunks k c1 = trad_encrypt_chunks k c2.
Proof. intros. rewrite !trad_encrypt_chunks_whole by assumption. congruence. Qed.

(* 12-byte header: the reader started with the writer's passphrase recovers the check byte and ends up with
   the writer's keys *)
Lemma trad_header_roundtrip : forall pw rnd11 chk kw hdr,
  length rnd11 = 11%nat ->
  trad_write_header pw rnd11 chk = (kw, hdr) ->
  forall old, trad_init_reader old pw hdr = (0%Z, chk, kw).
Proof.
  intros pw rnd chk kw hdr Hl H old. unfold trad_write_header, trad_encrypt_update in H.
  assert (Hf : firstn 11 rnd = rnd) by (rewrite <- Hl; apply firstn_all).
  rewrite Hf in H.
  assert (Hlen : length (rnd ++ [chk]) = 12%nat) by (rewrite app_length, Hl; reflexivity).
  rewrite Hlen in H. change (Nat.min 12 12) with 12%nat in H.
  rewrite <- Hlen in H at 1. rewrite firstn_all in H.
  pose proof (trad_enc_loop_length (rnd ++ [chk]) (trad_init pw)) as Hol. rewrite H in Hol. cbn [snd] in Hol.
  rewrite Hlen in Hol.
  unfold trad_init_reader. rewrite Hol. change (12 <? 12)%nat with false. cbv iota.
  unfold trad_decrypt_update. rewrite Hol. change (Nat.min 12 12) with 12%nat.
  rewrite <- Hol at 1. rewrite firstn_all.
  rewrite (trad_dec_enc_loop _ _ _ _ H).
  rewrite app_nth2 by (rewrite Hl; apply Nat.le_refl). rewrite Hl. reflexivity.
Qed.

(* ------------------------------------------------------------------ AES-CTR driver *)
Fixpoint le_bytes (j : nat) (x : N) : list N :=
  match j with
  | O => []
  | S j' => x mod 256 :: le_bytes j' (x / 256)
  end.

Definition two64 : N := 18446744073709551616.

(* counter block number m: 8-byte little-endian counter (wrapping at 2^64), then 8 zero bytes *)
Definition cblock (m : nat) : list N := le_bytes 8 (N.of_nat m mod two64) ++ repeat 0 8.

Lemma incr_le_spec : forall j x rest,
  x < 256 ^ N.of_nat j ->
  incr_le j (le_bytes j x ++ rest) = le_bytes j ((x + 1) mod 256 ^ N.of_nat j) ++ rest.
Proof.
  induction j as [|j IH]; intros x rest Hx.
  - cbn. reflexivity.
  - rewrite Nat2N.inj_succ, N.pow_succ_r' in *.
    set (p := 256 ^ N.of_nat j) in *.
    assert (Hp : 0 < p) by (apply N.neq_0_lt_0, N.pow_nonzero; discriminate).
    cbn [le_bytes app incr_le].
    pose proof (N.div_mod x 256 ltac:(discriminate)) as Hdm.
    pose proof (N.mod_lt x 256 ltac:(discriminate)) as Hr.
    set (q := x / 256) in *. set (r := x mod 256) in *.
    assert (Hq : q < p) by (apply N.div_lt_upper_bound; [discriminate|assumption]).
    destruct (N.eq_dec r 255) as [E|NE].
    + rewrite E. change ((255 + 1) mod 256) with 0. cbn [N.eqb].
      rewrite IH by assumption.
      assert (Hx1 : x + 1 = 256 * (q + 1)) by lia.
      rewrite Hx1. rewrite N.mul_mod_distr_l by lia.
      rewrite (N.mul_comm 256 ((q + 1) mod p)), N.mod_mul by discriminate.
      rewrite N.div_mul by discriminate. reflexivity.
    + assert (Hr1 : (r + 1) mod 256 = r + 1) by (apply N.mod_small; lia).
      rewrite Hr1. destruct (r + 1 =? 0) eqn:E0; [apply N.eqb_eq in E0; lia|].
      assert (Hsm : (x + 1) mod (256 * p) = x + 1) by (apply N.mod_small; nia).
      rewrite Hsm.
      assert (Hm : (x + 1) mod 256 = r + 1).
      { symmetry. apply (N.mod_unique _ _ q); lia. }
      assert (Hd : (x + 1) / 256 = q).
      { symmetry. apply (N.div_unique _ _ _ (r + 1)); lia. }
      rewrite Hm, Hd. reflexivity.
Qed.

Lemma cblock_incr : forall m, incr_le 8 (cblock m) = cblock (S m).
Proof.
  intros m. unfold cblock. rewrite incr_le_spec.
  - change (256 ^ N.of_nat 8) with two64.
    rewrite Nat2N.inj_succ, <- N.add_1_r. rewrite N.add_mod_idemp_l by discriminate. reflexivity.
  - change (256 ^ N.of_nat 8) with two64. apply N.mod_lt. discriminate.
Qed.

Lemma cblock_0 : cblock 0 = repeat 0 16.
Proof. reflexivity. Qed.

Section CTRProofs.
  Variable E : list N -> list N -> list N.
  Variable key : list N.

  (* keystream byte number n (0-based): byte n mod 16 of the encryption of counter block n/16 + 1
     -- the first block is encrypted under counter 1, not 0 *)
  Definition ks (n : nat) : N := nth (n mod 16) (E key (cblock (n / 16 + 1))) 0.

  Fixpoint xor_ks (n : nat) (l : list N) : list N :=
    match l with
    | [] => []
    | b :: t => N.lxor b (ks n) :: xor_ks (S n) t
    end.

  Lemma xor_ks_app : forall a b n, xor_ks n (a ++ b) = xor_ks n a ++ xor_ks (n + length a) b.
  Proof.
    induction a as [|x a IH]; intros b n; cbn [app xor_ks length].
    - rewrite Nat.add_0_r. reflexivity.
    - rewrite IH. rewrite <- Nat.add_succ_comm. reflexivity.
  Qed.

  Lemma xor_ks_length : forall l n, length (xor_ks n l) = length l.
  Proof. induction l; intros; cbn; [reflexivity | rewrite IHl; reflexivity]. Qed.

  Lemma xor_ks_involutive : forall l n, xor_ks n (xor_ks n l) = l.
  Proof.
    induction l as [|b l IH]; intros n; cbn [xor_ks]; [reflexivity|].
    rewrite lxor_cancel_r, IH. reflexivity.
  Qed.

  (* n bytes have gone through the context c *)
  Definition St (n : nat) (c : cctx) : Prop :=
    ckey c = key /\
    ((epos c = 16%nat /\ (n mod 16 = 0)%nat /\ nonce c = cblock (n / 16)) \/
     ((epos c < 16)%nat /\ epos c = (n mod 16)%nat /\ nonce c = cblock (n / 16 + 1) /\
      ebuf c = E key (nonce c))).

  Lemma next_block_spec : forall c m,
    ckey c = key -> nonce c = cblock m ->
    ckey (next_block E c) = key /\ nonce (next_block E c) = cblock (S m) /\
    ebuf (next_block E c) = E key (cblock (S m)) /\ epos (next_block E c) = epos c.
  Proof.
    intros c m Hk Hn. unfold next_block, aes_ctr_encrypt_counter, aes_ctr_increase_counter.
    cbn [ckey nonce ebuf epos]. rewrite Hn, cblock_incr, Hk. auto.
  Qed.

  Lemma div16_step : forall n p, (n mod 16 = p)%nat -> (p + 1 < 16)%nat ->
    (S n / 16 = n / 16)%nat /\ (S n mod 16 = p + 1)%nat.
  Proof.
    intros n p Hm Hp.
    pose proof (Nat.div_mod n 16 ltac:(discriminate)) as Hd.
    assert (H1 : (S n = 16 * (n / 16) + (p + 1))%nat) by lia.
    split.
    - symmetry. apply (Nat.div_unique _ _ _ (p + 1)); lia.
    - symmetry. apply (Nat.mod_unique _ _ (n / 16)); lia.
  Qed.

  Lemma div16_wrap : forall n, (n mod 16 = 15)%nat ->
    (S n / 16 = n / 16 + 1)%nat /\ (S n mod 16 = 0)%nat.
  Proof.
    intros n Hm.
    pose proof (Nat.div_mod n 16 ltac:(discriminate)) as Hd.
    assert (H1 : (S n = 16 * (n / 16 + 1) + 0)%nat) by lia.
    split.
    - symmetry. apply (Nat.div_unique _ _ _ 0); lia.
    - symmetry. apply (Nat.mod_unique _ _ (n / 16 + 1)); lia.
  Qed.

  (* bytes xored from one encrypted counter block *)
  Lemma xor_from_ks : forall l n p,
    (n mod 16 = p)%nat -> (p + length l <= 16)%nat ->
    xor_from (E key (cblock (n / 16 + 1))) p l = xor_ks n l.
  Proof.
    induction l as [|b l IH]; intros n p Hm Hl; cbn [xor_from xor_ks]; [reflexivity|].
    cbn [length] in Hl. unfold ks at 1. rewrite Hm. f_equal.
    destruct l as [|b' l']; [reflexivity|].
    cbn [length] in Hl.
    destruct (div16_step n p Hm ltac:(lia)) as [Hd Hm'].
    rewrite <- Hd. apply IH.
    - rewrite Hm'. lia.
    - cbn [length]. lia.
  Qed.

  Lemma skipn_skipn' : forall (l : list N) a b, skipn a (skipn b l) = skipn (b + a) l.
  Proof.
    induction l as [|x l IH]; intros a b.
    - rewrite !skipn_nil. reflexivity.
    - destruct b; cbn [skipn Nat.add]; [reflexivity | apply IH].
  Qed.

  Lemma firstn_skipn_len : forall (l : list N) k, (k <= length l)%nat -> length (firstn k l) = k.
  Proof. intros. rewrite firstn_length. lia. Qed.

  (* the inner while loop: q whole blocks *)
  Lemma ctr_blocks_spec : forall fuel c inp m,
    ckey c = key -> nonce c = cblock (S m) -> ebuf c = E key (cblock (S m)) ->
    (length inp <= fuel)%nat ->
    exists c' q,
      ctr_blocks E fuel c inp = Some (c', xor_ks (16 * m) (firstn (16 * q) inp), skipn (16 * q) inp) /\
      (16 * q <= length inp)%nat /\ (length inp - 16 * q < 16)%nat /\
      ckey c' = key /\ nonce c' = cblock (S m + q) /\ ebuf c' = E key (cblock (S m + q)) /\ epos c' = epos c.
  Proof.
    induction fuel as [|f IH]; intros c inp m Hk Hn He Hf.
    - destruct inp; [|cbn in Hf; lia]. exists c, 0%nat. rewrite Nat.mul_0_r, Nat.add_0_r.
      cbn [ctr_blocks length Nat.leb firstn skipn xor_ks]. repeat split; auto; lia.
    - cbn [ctr_blocks]. destruct (16 <=? length inp)%nat eqn:Hge.
      + apply Nat.leb_le in Hge.
        destruct (next_block_spec c (S m) Hk Hn) as (Hk' & Hn' & He' & Hp').
        destruct (IH (next_block E c) (skipn 16 inp) (S m) Hk' Hn' He') as (c' & q & Hr & Hq1 & Hq2 & Hk2 & Hn2 & He2 & Hp2).
        { rewrite skipn_length. lia. }
        rewrite Hr. exists c', (S q). rewrite skipn_length in Hq1, Hq2.
        replace (16 * S q)%nat with (16 + 16 * q)%nat by lia.
        split; [|repeat split; try lia; try congruence].
        * f_equal. f_equal; [f_equal|].
          -- rewrite He.
             assert (Hx : xor_from (E key (cblock (S m))) 0 (firstn 16 inp) = xor_ks (16 * m) (firstn 16 inp)).
             { replace (S m) with ((16 * m) / 16 + 1)%nat.
               - apply xor_from_ks.
                 + rewrite Nat.mul_comm. apply Nat.mod_mul. discriminate.
                 + rewrite firstn_length. lia.
               - rewrite Nat.mul_comm, Nat.div_mul by discriminate. lia. }
             rewrite Hx.
             rewrite <- (firstn_skipn 16 (firstn (16 + 16 * q) inp)).
             rewrite xor_ks_app. rewrite firstn_firstn. replace (Nat.min 16 (16 + 16 * q)) with 16%nat by lia.
             f_equal. rewrite firstn_length. replace (Nat.min 16 (length inp)) with 16%nat by lia.
             replace (16 * m + 16)%nat with (16 * S m)%nat by lia.
             f_equal.
             (* skipn 16 (firstn (16+k) l) = firstn k (skipn 16 l) *)
             rewrite skipn_firstn_comm. replace (16 + 16 * q - 16)%nat with (16 * q)%nat by lia. reflexivity.
          -- rewrite skipn_skipn'. f_equal.
        * rewrite Hn2. f_equal. lia.
        * rewrite He2. f_equal. f_equal. lia.
      + apply Nat.leb_gt in Hge. exists c, 0%nat.
        rewrite Nat.mul_0_r, Nat.add_0_r. cbn [firstn skipn xor_ks]. repeat split; auto; lia.
  Qed.

  Lemma mod16_0 : forall n, (n mod 16 = 0)%nat -> (n = 16 * (n / 16))%nat.
  Proof. intros n H. pose proof (Nat.div_mod n 16 ltac:(discriminate)). lia. Qed.

  Lemma div16_add : forall m q r, (r < 16)%nat ->
    ((16 * m + 16 * q + r) / 16 = m + q)%nat /\ ((16 * m + 16 * q + r) mod 16 = r)%nat.
  Proof.
    intros m q r Hr. split.
    - symmetry. apply (Nat.div_unique _ _ _ r); lia.
    - symmetry. apply (Nat.mod_unique _ _ (m + q)); lia.
  Qed.

  Lemma skipn_nil_all : forall (l : list N) k, skipn k l = [] -> firstn k l = l.
  Proof.
    intros l k H. rewrite <- (firstn_skipn k l) at 2. rewrite H, app_nil_r. reflexivity.
  Qed.

  Lemma ctr_loop_spec : forall fuel c inp n,
    St n c -> (length inp <= fuel)%nat ->
    exists c', ctr_loop E fuel c inp = Some (c', xor_ks n inp) /\ St (n + length inp) c'.
  Proof.
    induction fuel as [|f IH]; intros c inp n HS Hf.
    - destruct inp; [|cbn in Hf; lia]. exists c. cbn. rewrite Nat.add_0_r. auto.
    - destruct inp as [|b tl].
      + exists c. cbn. rewrite Nat.add_0_r. auto.
      + cbn [ctr_loop]. destruct HS as [Hk HS].
        destruct (epos c =? AES_BLOCK_SIZE)%nat eqn:Hpos.
        * apply Nat.eqb_eq in Hpos. unfold AES_BLOCK_SIZE in Hpos.
          destruct HS as [(_ & Hm & Hn) | (Hlt & _)]; [|lia].
          set (m := (n / 16)%nat) in *.
          assert (Hn16 : n = (16 * m)%nat) by (apply mod16_0; assumption).
          destruct (next_block_spec c m Hk Hn) as (Hk1 & Hn1 & He1 & Hp1).
          destruct (ctr_blocks_spec (length (b :: tl)) (next_block E c) (b :: tl) m Hk1 Hn1 He1 (le_n _)) as
              (c2 & q & Hr & Hq1 & Hq2 & Hk2 & Hn2 & He2 & Hp2).
          rewrite Hr. rewrite <- Hn16.
          destruct (div16_add m q 0 ltac:(lia)) as [Hd0 Hm0].
          destruct (div16_add m q 1 ltac:(lia)) as [Hd1 Hm1].
          rewrite Nat.add_0_r in Hd0, Hm0.
          destruct (skipn (16 * q) (b :: tl)) as [|b' tl'] eqn:Hrest.
          -- exists (set_pos c2 0). rewrite (skipn_nil_all _ _ Hrest). split; [reflexivity|].
             assert (Hlen : length (b :: tl) = (16 * q)%nat).
             { pose proof (skipn_length (16 * q) (b :: tl)) as Hsl. rewrite Hrest in Hsl. cbn [length] in Hsl.
               cbn [length] in *. lia. }
             rewrite Hlen, Hn16. split; [exact Hk2|]. right. cbn [set_pos epos nonce ebuf].
             rewrite Hd0, Hm0. repeat split; try lia.
             ++ rewrite Hn2. f_equal. lia.
             ++ rewrite He2, Hn2. reflexivity.
          -- assert (Hlen : length (b :: tl) = (16 * q + S (length tl'))%nat).
             { pose proof (skipn_length (16 * q) (b :: tl)) as Hsl. rewrite Hrest in Hsl. cbn [length] in Hsl.
               cbn [length] in *. lia. }
             assert (HS1 : St (n + 16 * q + 1) (set_pos (set_pos c2 0) 1)).
             { split; [exact Hk2|]. right. cbn [set_pos epos nonce ebuf]. rewrite Hn16, Hd1, Hm1.
               repeat split; try lia.
               - rewrite Hn2. f_equal. lia.
               - rewrite He2, Hn2. reflexivity. }
             destruct (IH (set_pos (set_pos c2 0) 1) tl' (n + 16 * q + 1)%nat HS1) as (c4 & Hr4 & HS4).
             { cbn [length] in *. lia. }
             rewrite Hr4. exists c4. split.
             ++ f_equal. f_equal.
                rewrite <- (firstn_skipn (16 * q) (b :: tl)) at 2. rewrite Hrest.
                rewrite xor_ks_app. rewrite firstn_length. replace (Nat.min (16 * q) (length (b :: tl))) with (16 * q)%nat by lia.
                f_equal. cbn [xor_ks set_pos ebuf]. f_equal.
                ** unfold ks. rewrite Hn16, Hd0, Hm0. rewrite He2.
                   replace (m + q + 1)%nat with (S m + q)%nat by lia. reflexivity.
                ** f_equal. lia.
             ++ rewrite Hlen. replace (n + (16 * q + S (length tl')))%nat with (n + 16 * q + 1 + length tl')%nat by lia.
                exact HS4.
        * apply Nat.eqb_neq in Hpos. unfold AES_BLOCK_SIZE in Hpos.
          destruct HS as [(Hp16 & _) | (Hlt & Hp & Hn & He)]; [lia|].
          assert (HS1 : St (S n) (set_pos c (S (epos c)))).
          { split; [exact Hk|]. cbn [set_pos epos nonce ebuf].
            destruct (Nat.eq_dec (epos c) 15) as [E15|N15].
            - left. destruct (div16_wrap n ltac:(lia)) as [Hd Hm]. repeat split; try lia.
              rewrite Hd. exact Hn.
            - right. destruct (div16_step n (epos c) ltac:(lia) ltac:(lia)) as [Hd Hm].
              repeat split; try lia. + rewrite Hd. exact Hn. + exact He. }
          destruct (IH (set_pos c (S (epos c))) tl (S n) HS1) as (c4 & Hr4 & HS4).
          { cbn [length] in Hf. lia. }
          rewrite Hr4. exists c4. split.
          -- cbn [xor_ks]. f_equal. f_equal. f_equal. unfold ks. rewrite <- Hp, He, Hn. reflexivity.
          -- cbn [length]. rewrite <- Nat.add_succ_comm. exact HS4.
  Qed.

  Lemma aes_ctr_update_spec : forall c inp ol n,
    St n c -> chunk_ok (inp, ol) ->
    exists c', aes_ctr_update E c inp ol = Some (c', xor_ks n inp) /\ St (n + length inp) c'.
  Proof.
    intros c inp ol n HS Hc. unfold chunk_ok in Hc; cbn [fst snd] in Hc. unfold aes_ctr_update.
    rewrite firstn_min_all by assumption. apply ctr_loop_spec; [assumption | lia].
  Qed.

  Lemma ctr_chunks_spec : forall chunks c n,
    St n c -> Forall chunk_ok chunks ->
    exists c', ctr_chunks E c chunks = Some (c', xor_ks n (body_of chunks)) /\
               St (n + length (body_of chunks)) c'.
  Proof.
    induction chunks as [|[ch ol] tl IH]; intros c n HS Hall.
    - exists c. cbn. rewrite Nat.add_0_r. auto.
    - inversion Hall as [|? ? Hc Ht]; subst.
      destruct (aes_ctr_update_spec c ch ol n HS Hc) as (c1 & Hr1 & HS1).
      destruct (IH c1 _ HS1 Ht) as (c2 & Hr2 & HS2).
      exists c2. cbn [ctr_chunks]. rewrite Hr1, Hr2.
      cbn [body_of map concat fst]. fold (body_of tl). rewrite xor_ks_app, app_length, Nat.add_assoc. auto.
  Qed.

  Lemma init_St : forall c0, aes_ctr_init key = Some c0 -> St 0 c0.
  Proof.
    intros c0 H. unfold aes_ctr_init in H.
    destruct ((length key =? 16)%nat || (length key =? 24)%nat || (length key =? 32)%nat); [|discriminate].
    inversion H; subst. split; [reflexivity|]. left. cbn [epos nonce]. repeat split.
  Qed.

  Lemma xor_ks_nth : forall l n i, (i < length l)%nat ->
    nth i (xor_ks n l) 0 = N.lxor (nth i l 0) (ks (n + i)).
  Proof.
    induction l as [|b l IH]; intros n i Hi; cbn [length] in Hi; [lia|].
    destruct i; cbn [xor_ks nth].
    - rewrite Nat.add_0_r. reflexivity.
    - rewrite IH by lia. rewrite Nat.add_succ_comm. reflexivity.
  Qed.
End CTRProofs.

(* for every partition into update calls the output is body xor keystream, keystream byte i being byte
   i mod 16 of E(key, counter block i/16 + 1) *)
Theorem ctr_keystream : forall E key c0 chunks,
  aes_ctr_init key = Some c0 -> Forall chunk_ok chunks ->
  exists c', ctr_chunks E c0 chunks = Some (c', xor_ks E key 0 (body_of chunks)) /\
    length (xor_ks E key 0 (body_of chunks)) = length (body_of chunks) /\
    forall i, (i < length (body_of chunks))%nat ->
      nth i (xor_ks E key 0 (body_of chunks)) 0 =
      N.lxor (nth i (body_of chunks) 0) (nth (i mod 16) (E key (cblock (i / 16 + 1))) 0).
Proof.
  intros E key c0 chunks Hi Hall.
  destruct (ctr_chunks_spec E key chunks c0 0%nat (init_St E key c0 Hi) Hall) as (c' & Hr & _).
  exists c'. split; [exact Hr|]. split; [apply xor_ks_length|].
  intros i Hlt. rewrite xor_ks_nth by assumption. reflexivity.
Qed.

Theorem ctr_partition_independent : forall E key c0 c1 c2 r1 r2,
  aes_ctr_init key = Some c0 -> Forall chunk_ok c1 -> Forall chunk_ok c2 -> body_of c1 = body_of c2 ->
  ctr_chunks E c0 c1 = Some r1 -> ctr_chunks E c0 c2 = Some r2 -> snd r1 = snd r2.
Proof.
  intros E key c0 c1 c2 r1 r2 Hi H1 H2 Hb Hr1 Hr2.
  destruct (ctr_keystream E key c0 c1 Hi H1) as (x1 & Hx1 & _).
  destruct (ctr_keystream E key c0 c2 Hi H2) as (x2 & Hx2 & _).
  rewrite Hx1 in Hr1. rewrite Hx2 in Hr2. inversion Hr1; inversion Hr2; subst. cbn. rewrite Hb. reflexivity.
Qed.

(* decrypting (any partition of) the encryption (under any partition) of a body gives the body back *)
Theorem ctr_involutive : forall E key c0 ce cd,
  aes_ctr_init key = Some c0 -> Forall chunk_ok ce -> Forall chunk_ok cd ->
  exists c1 cipher, ctr_chunks E c0 ce = Some (c1, cipher) /\
    (body_of cd = cipher -> exists c2, ctr_chunks E c0 cd = Some (c2, body_of ce)).
Proof.
  intros E key c0 ce cd Hi He Hd.
  destruct (ctr_keystream E key c0 ce Hi He) as (c1 & Hr1 & _).
  exists c1, (xor_ks E key 0 (body_of ce)). split; [exact Hr1|].
  intros Hb. destruct (ctr_keystream E key c0 cd Hi Hd) as (c2 & Hr2 & _).
  exists c2. rewrite Hr2, Hb, xor_ks_involutive. reflexivity.
Qed.

(* ------------------------------------------------------------------ passphrase list *)
Local Open Scope Z_scope.

Definition cand_ok (s : pstate) : Prop := cand s <= Z.of_nat (length (items s)).

Lemma rotate_length : forall l, length (rotate l) = length l.
Proof. destruct l; cbn [rotate length]; [reflexivity|]. rewrite app_length. cbn. lia. Qed.

Lemma ask_callback_cases : forall s its cd s' r,
  ask_callback s its cd = (s', r) ->
  (r = None /\ items s' = its /\ cand s' = cd) \/
  (exists pw, r = Some pw /\ items s' = pw :: its /\ cand s' = 1).
Proof.
  intros s its cd s' r H. unfold ask_callback in H.
  destruct (has_cb s); [destruct (cb_script s) as [|[pw|] rest]|]; inversion H; subst; cbn; eauto.
Qed.

(* candidate never exceeds the number of items: in particular candidate == 1 implies a non-empty list, so the
   C code's  first->next  is a valid access *)
Lemma next_passphrase_cand_ok : forall s s' r, cand_ok s -> next_passphrase s = (s', r) -> cand_ok s'.
Proof.
  intros s s' r Hok H. unfold cand_ok in *. unfold next_passphrase in H.
  destruct (cand s <? 0) eqn:C0.
  - destruct (items s) as [|x l] eqn:Hi; cbn [hd_error] in H.
    + apply ask_callback_cases in H. destruct H as [(_ & Hi' & Hc) | (pw & _ & Hi' & Hc)]; rewrite Hi', Hc; cbn; lia.
    + inversion H; subst. cbn. lia.
  - destruct (1 <? cand s) eqn:C1.
    + apply Z.ltb_lt in C1. destruct (items s) as [|x l] eqn:Hi; [cbn in Hok; lia|].
      cbn [rotate] in H. destruct (l ++ [x]) as [|y l'] eqn:Hr.
      * destruct l; discriminate.
      * cbn [hd_error] in H. inversion H; subst. cbn [cand items].
        rewrite <- Hr, app_length. cbn [length] in *. lia.
    + destruct (cand s =? 1) eqn:C2.
      * apply ask_callback_cases in H.
        assert (Hl : forall l : list bytes, length (match l with _ :: _ :: _ => rotate l | _ => l end) = length l).
        { intros l. destruct l as [|? [|? ?]]; try reflexivity. apply rotate_length. }
        destruct H as [(_ & Hi' & Hc) | (pw & _ & Hi' & Hc)]; rewrite Hi', Hc; cbn [length]; try rewrite Hl; lia.
      * apply Z.ltb_ge in C0. apply Z.ltb_ge in C1. apply Z.eqb_neq in C2.
        apply ask_callback_cases in H.
        destruct H as [(_ & Hi' & Hc) | (pw & _ & Hi' & Hc)]; rewrite Hi', Hc; cbn [length]; lia.
Qed.

Lemma add_passphrase_cand_ok : forall s pw, cand_ok s -> cand_ok (fst (add_passphrase s pw)).
Proof.
  intros s pw H. unfold add_passphrase. destruct pw; cbn [fst]; [assumption|].
  unfold cand_ok in *. cbn [items cand]. rewrite app_length. cbn [length]. lia.
Qed.

Lemma reset_cand_ok : forall s, cand_ok (reset_passphrase s).
Proof. intros. unfold cand_ok. cbn. lia. Qed.

(* first call after a reset on a non-empty list *)
Lemma next_after_reset : forall s x l,
  cand s = -1 -> items s = x :: l ->
  next_passphrase s = (mkPstate (x :: l) (Z.of_nat (S (length l))) (has_cb s) (cb_script s), Some x).
Proof.
  intros s x l Hc Hi. unfold next_passphrase. rewrite Hc, Hi. reflexivity.
Qed.

(* k further calls while candidates remain: each rotates the list by one *)
Lemma rot_prefix : forall k l1 x l2 s,
  items s = x :: l1 ++ l2 -> cand s = Z.of_nat (S (length l1)) -> (k <= length l1)%nat ->
  exists s', next_n k s = (s', map Some (firstn k l1)) /\
    items s' = skipn k (x :: l1) ++ l2 ++ firstn k (x :: l1) /\
    cand s' = Z.of_nat (S (length l1) - k) /\ has_cb s' = has_cb s /\ cb_script s' = cb_script s.
Proof.
  induction k as [|k IH]; intros l1 x l2 s Hi Hc Hk.
  - exists s. cbn [next_n firstn skipn map]. rewrite app_nil_r, Nat.sub_0_r. auto.
  - destruct l1 as [|y l1']; [cbn in Hk; lia|]. cbn [length] in *.
    cbn [next_n]. unfold next_passphrase at 1. rewrite Hc, Hi.
    replace (Z.of_nat (S (S (length l1'))) <? 0) with false by (symmetry; apply Z.ltb_ge; lia).
    replace (1 <? Z.of_nat (S (S (length l1')))) with true by (symmetry; apply Z.ltb_lt; lia).
    cbn [rotate app hd_error].
    set (s1 := mkPstate _ _ _ _).
    destruct (IH l1' y (l2 ++ [x]) s1) as (s' & Hn & Hi' & Hc' & Hcb & Hsc).
    + unfold s1. cbn [items]. rewrite <- app_assoc. reflexivity.
    + unfold s1. cbn [cand]. lia.
    + lia.
    + rewrite Hn. exists s'. cbn [firstn map]. split; [reflexivity|].
      split; [|split; [|split]].
      * rewrite Hi'. cbn [skipn firstn]. rewrite <- !app_assoc. reflexivity.
      * rewrite Hc'. f_equal.
      * rewrite Hcb. reflexivity.
      * rewrite Hsc. reflexivity.
Qed.

(* the call that finds candidate == 1: the list is rotated once more and the callback (if any) is asked *)
Lemma exhaust_step : forall s z r,
  items s = z :: r -> cand s = 1 -> next_passphrase s = ask_callback s (r ++ [z]) 0.
Proof.
  intros s z r Hi Hc. unfold next_passphrase. rewrite Hc, Hi. cbn [Z.ltb Z.compare Z.eqb].
  destruct r as [|y r']; reflexivity.
Qed.

Lemma next_n_app : forall a b s s1 r1 s2 r2,
  next_n a s = (s1, r1) -> next_n b s1 = (s2, r2) -> next_n (a + b) s = (s2, r1 ++ r2).
Proof.
  induction a as [|a IH]; intros b s s1 r1 s2 r2 H1 H2; cbn [next_n Nat.add] in *.
  - inversion H1; subst. assumption.
  - destruct (next_passphrase s) as [s' r]. destruct (next_n a s') as [s'' rs] eqn:Ha.
    inversion H1; subst. rewrite (IH b s' s1 rs s2 r2 Ha H2). reflexivity.
Qed.

Lemma firstn_removelast_last : forall (x : bytes) l,
  exists z r, skipn (length l) (x :: l) = [z] /\ firstn (length l) (x :: l) = r /\ r ++ [z] = x :: l.
Proof.
  intros x l. pose proof (firstn_skipn (length l) (x :: l)) as H.
  assert (Hl : length (skipn (length l) (x :: l)) = 1%nat) by (rewrite skipn_length; cbn [length]; lia).
  destruct (skipn (length l) (x :: l)) as [|z [|? ?]] eqn:Hs; try discriminate.
  exists z, (firstn (length l) (x :: l)). auto.
Qed.

(* Between a reset and exhaustion the candidates are the list items in order; the call after the last one
   finds the list back in its original order and asks the callback (which may add a new head). *)
Theorem candidates_complete : forall s,
  exists s1,
    next_n (length (items s)) (reset_passphrase s) = (s1, map Some (items s)) /\
    has_cb s1 = has_cb s /\ cb_script s1 = cb_script s /\
    next_passphrase s1 = ask_callback s (items s) 0.
Proof.
  intros s. destruct (items s) as [|x l] eqn:Hi.
  - exists (reset_passphrase s). cbn [length next_n map]. repeat split.
    unfold next_passphrase. cbn [reset_passphrase cand items]. rewrite Hi. reflexivity.
  - pose proof (next_after_reset (reset_passphrase s) x l eq_refl Hi) as H1. cbn [reset_passphrase has_cb cb_script] in H1.
    set (sa := mkPstate (x :: l) (Z.of_nat (S (length l))) (has_cb s) (cb_script s)) in *.
    destruct (rot_prefix (length l) l x [] sa) as (s1 & Hn & Hi1 & Hc1 & Hcb & Hsc).
    + unfold sa. cbn [items]. rewrite app_nil_r. reflexivity.
    + reflexivity.
    + lia.
    + exists s1. cbn [length next_n]. rewrite H1, Hn. rewrite firstn_all. cbn [map].
      split; [reflexivity|]. split; [exact Hcb|]. split; [exact Hsc|].
      destruct (firstn_removelast_last x l) as (z & r & Hs & Hf & Hr).
      cbn [app] in Hi1. rewrite Hs, Hf in Hi1. cbn [app] in Hi1.
      rewrite (exhaust_step s1 z r Hi1).
      * rewrite Hr. unfold ask_callback. rewrite Hcb, Hsc. reflexivity.
      * rewrite Hc1. replace (S (length l) - length l)%nat with 1%nat by lia. reflexivity.
Qed.

(* without a callback: n+1 calls give the n items in order and then NULL; the list order is restored, and
   every further call returns NULL and changes nothing *)
Corollary candidates_no_callback : forall s, has_cb s = false ->
  exists s',
    next_n (S (length (items s))) (reset_passphrase s) = (s', map Some (items s) ++ [None]) /\
    items s' = items s /\ cand s' = 0 /\ next_passphrase s' = (s', None).
Proof.
  intros s Hcb. destruct (candidates_complete s) as (s1 & Hn & Hcb1 & Hsc1 & Hlast).
  unfold ask_callback in Hlast. rewrite Hcb in Hlast.
  set (s' := mkPstate (items s) 0 false (cb_script s)) in *.
  exists s'. split.
  - replace (S (length (items s))) with (length (items s) + 1)%nat by lia.
    apply (next_n_app _ _ _ s1 _ s' [None] Hn). cbn [next_n]. rewrite Hlast. reflexivity.
  - repeat split.
Qed.

(* with a callback: after the list items the callback's answer is the next candidate; it becomes the head of
   the list (candidate = 1); if it fails too, it is rotated to the tail and the callback is asked again *)
Corollary candidates_then_callback : forall s pw rest, has_cb s = true -> cb_script s = Some pw :: rest ->
  exists s',
    next_n (S (length (items s))) (reset_passphrase s) = (s', map Some (items s) ++ [Some pw]) /\
    items s' = pw :: items s /\ cand s' = 1 /\ cb_script s' = rest /\
    next_passphrase s' = ask_callback s' (items s ++ [pw]) 0.
Proof.
  intros s pw rest Hcb Hsc. destruct (candidates_complete s) as (s1 & Hn & Hcb1 & Hsc1 & Hlast).
  unfold ask_callback in Hlast. rewrite Hcb, Hsc in Hlast.
  set (s' := mkPstate (pw :: items s) 1 true rest) in *.
  exists s'. split.
  - replace (S (length (items s))) with (length (items s) + 1)%nat by lia.
    apply (next_n_app _ _ _ s1 _ s' [Some pw] Hn). cbn [next_n]. rewrite Hlast. reflexivity.
  - repeat split. apply (exhaust_step s' pw (items s)); reflexivity.
Qed.

Lemma nth_error_firstn_S : forall (A : Type) (l : list A) k, nth_error (firstn (S k) l) k = nth_error l k.
Proof.
  induction l as [|x l IH]; intros k; [destruct k; reflexivity|].
  destruct k; [reflexivity|]. cbn [firstn nth_error] in *. apply IH.
Qed.

(* the candidate that works (position k) is reached after k+1 calls, every earlier item having been tried in
   order, and is then the first item of the list: the next entry tries it first *)
Theorem candidate_success_first : forall s k pw,
  nth_error (items s) k = Some pw ->
  exists s',
    next_n (S k) (reset_passphrase s) = (s', map Some (firstn (S k) (items s))) /\
    items s' = skipn k (items s) ++ firstn k (items s) /\
    hd_error (items s') = Some pw /\
    nth_error (map Some (firstn (S k) (items s))) k = Some (Some pw).
Proof.
  intros s k pw Hk.
  assert (Hlt : (k < length (items s))%nat) by (apply nth_error_Some; congruence).
  destruct (items s) as [|x l] eqn:Hi; [cbn in Hlt; lia|]. cbn [length] in Hlt.
  pose proof (next_after_reset (reset_passphrase s) x l eq_refl Hi) as H1. cbn [reset_passphrase has_cb cb_script] in H1.
  set (sa := mkPstate (x :: l) (Z.of_nat (S (length l))) (has_cb s) (cb_script s)) in *.
  destruct (rot_prefix k l x [] sa) as (s' & Hn & Hi' & _).
  - unfold sa. cbn [items]. rewrite app_nil_r. reflexivity.
  - reflexivity.
  - lia.
  - exists s'. cbn [next_n]. rewrite H1, Hn. cbn [firstn map app] in *. split; [reflexivity|].
    split; [exact Hi'|].
    pose proof (nth_error_split (x :: l) k Hk) as (l1 & l2 & Hsplit & Hlen).
    split.
    + rewrite Hi'. rewrite Hsplit. rewrite <- Hlen.
      rewrite skipn_app, skipn_all, Nat.sub_diag. reflexivity.
    + change (Some x :: map Some (firstn k l)) with (map Some (firstn (S k) (x :: l))).
      rewrite nth_error_map. rewrite nth_error_firstn_S. rewrite Hk. reflexivity.
Qed.

(* ------------------------------------------------------------------ reader decision logic *)
Local Close Scope Z_scope.
Local Open Scope N_scope.

Lemma rotate_incl : forall l : list bytes, incl (rotate l) l.
Proof.
  destruct l as [|x t]; cbn [rotate]; [apply incl_refl|].
  intros y Hy. apply in_app_or in Hy. destruct Hy as [Hy|[Hy|[]]]; [right; assumption | left; assumption].
Qed.

Lemma ask_callback_pool : forall s its cd s' r,
  incl its (items s) -> ask_callback s its cd = (s', r) ->
  incl (pool s') (pool s) /\ (forall pw, r = Some pw -> In pw (pool s)).
Proof.
  intros s its cd s' r Hinc H. unfold ask_callback in H. unfold pool.
  destruct (has_cb s) eqn:Hcb.
  - destruct (cb_script s) as [|[pw|] rest] eqn:Hsc; inversion H; subst; cbn [items has_cb cb_script somes].
    + split; [|discriminate]. apply incl_app; [apply incl_appl; assumption | apply incl_nil_l].
    + split.
      * intros y Hy. cbn [app] in Hy. destruct Hy as [Hy|Hy].
        -- subst. apply in_or_app. right. left. reflexivity.
        -- apply in_app_or in Hy. apply in_or_app. destruct Hy as [Hy|Hy]; [left; apply Hinc; assumption | right; right; assumption].
      * intros pw' Hpw. inversion Hpw; subst. apply in_or_app. right. left. reflexivity.
    + split; [|discriminate]. apply incl_app; [apply incl_appl; assumption | apply incl_appr, incl_refl].
  - inversion H; subst. cbn [items has_cb cb_script]. split; [|discriminate].
    apply incl_app; [apply incl_appl; assumption | apply incl_nil_l].
Qed.

(* whatever the list hands out comes from the items or from the callback's answers, and that pool only shrinks *)
Lemma next_passphrase_pool : forall s s' r,
  next_passphrase s = (s', r) ->
  incl (pool s') (pool s) /\ (forall pw, r = Some pw -> In pw (pool s)).
Proof.
  intros s s' r H. unfold next_passphrase in H.
  assert (Hsome : forall its cd pw, incl its (items s) -> hd_error its = Some pw ->
            (mkPstate its cd (has_cb s) (cb_script s), Some pw) = (s', r) ->
            incl (pool s') (pool s) /\ (forall pw', r = Some pw' -> In pw' (pool s))).
  { intros its cd pw Hinc Hhd Heq. inversion Heq; subst. unfold pool. cbn [items has_cb cb_script]. split.
    - apply incl_app; [apply incl_appl; assumption | apply incl_appr, incl_refl].
    - intros pw' Hpw. inversion Hpw; subst. apply in_or_app. left. apply Hinc.
      destruct its; [discriminate|]. inversion Hhd; subst. left. reflexivity. }
  destruct (cand s <? 0)%Z.
  - destruct (hd_error (items s)) as [pw|] eqn:Hhd.
    + eapply Hsome; eauto. apply incl_refl.
    + eapply ask_callback_pool; eauto. apply incl_refl.
  - destruct (1 <? cand s)%Z.
    + destruct (hd_error (rotate (items s))) as [pw|] eqn:Hhd.
      * eapply Hsome; eauto. apply rotate_incl.
      * eapply ask_callback_pool; eauto. apply rotate_incl.
    + destruct (cand s =? 1)%Z.
      * eapply ask_callback_pool; eauto.
        destruct (items s) as [|? [|? ?]]; try apply incl_refl. apply rotate_incl.
      * eapply ask_callback_pool; eauto. apply incl_refl.
Qed.

Lemma bytes_eqb_refl : forall l, bytes_eqb l l = true.
Proof. induction l; cbn; [reflexivity|]. rewrite N.eqb_refl, IHl. reflexivity. Qed.

Lemma status_codes_distinct :
  ARCHIVE_OK <> ARCHIVE_WARN /\ ARCHIVE_OK <> ARCHIVE_FAILED /\ ARCHIVE_OK <> ARCHIVE_FATAL.
Proof. repeat split; discriminate. Qed.

Section ReaderProofs.
  Variable pbkdf2 : list N -> list N -> nat -> list N.
  Variable hmac : list N -> list N -> list N.
  Variable E : list N -> list N -> list N.

  Lemma aes_try_inr : forall fuel retry ps klen e ps1 dk,
    aes_try pbkdf2 fuel retry ps klen e = (ps1, inr dk) ->
    exists pw, In pw (pool ps) /\ dk = pbkdf2 pw (ae_salt e) (2 * klen + 2) /\ pv_ok dk klen (ae_pv e) = true.
  Proof.
    induction fuel as [|f IH]; intros retry ps klen e ps1 dk H; cbn [aes_try] in H; [discriminate|].
    destruct (next_passphrase ps) as [ps' p] eqn:Hn.
    destruct (next_passphrase_pool _ _ _ Hn) as [Hinc Hin].
    destruct p as [pw|]; [|discriminate].
    destruct (pv_ok (pbkdf2 pw (ae_salt e) (2 * klen + 2)) klen (ae_pv e)) eqn:Hpv.
    - inversion H; subst. exists pw. auto.
    - destruct (RETRY_LIMIT <? retry); [discriminate|].
      destruct (IH _ _ _ _ _ _ H) as (pw' & Hin' & Hdk & Hok). exists pw'. auto.
  Qed.

  (* archive_read_data reports ARCHIVE_OK for a WinZip-AES entry only if some candidate passphrase (from the
     list or the callback) has the stored verification value AND the HMAC of the ciphertext under that
     candidate's key equals the stored authentication code *)
  Theorem aes_ok_only_if : forall ps e,
    r_status (read_aes_entry pbkdf2 hmac E ps e) = ARCHIVE_OK ->
    exists pw slen klen,
      In pw (pool ps) /\ aes_lens (ae_strength e) = Some (slen, klen) /\
      let dk := pbkdf2 pw (ae_salt e) (2 * klen + 2) in
      pv_ok dk klen (ae_pv e) = true /\
      bytes_eqb (firstn AUTH_CODE_SIZE (hmac (firstn klen (skipn klen dk)) (ae_cipher e))) (ae_mac e) = true.
  Proof.
    intros ps e H. unfold read_aes_entry in H.
    destruct (aes_lens (ae_strength e)) as [[slen klen]|] eqn:Hl; [|cbn in H; discriminate].
    destruct (aes_try pbkdf2 TRY_FUEL 0 ps klen e) as [ps1 [err|dk]] eqn:Ht; [cbn in H; discriminate|].
    destruct (aes_try_inr _ _ _ _ _ _ _ Ht) as (pw & Hin & Hdk & Hpv). unfold read_aes_tail in H.
    destruct (aes_ctr_init (firstn klen dk)) as [c|]; [|cbn in H; discriminate].
    destruct (aes_ctr_update E c (ae_cipher e) (length (ae_cipher e))) as [[c' plain]|]; [|cbn in H; discriminate].
    destruct (bytes_eqb (firstn AUTH_CODE_SIZE (hmac (firstn klen (skipn klen dk)) (ae_cipher e))) (ae_mac e)) eqn:Hm;
      [|cbn in H; discriminate].
    exists pw, slen, klen. subst dk. auto.
  Qed.

  (* the verification value of every candidate differs: FAILED at once, nothing handed out *)
  Theorem wrong_verifier_is_error : forall ps e slen klen,
    aes_lens (ae_strength e) = Some (slen, klen) ->
    (forall pw, In pw (pool ps) -> pv_ok (pbkdf2 pw (ae_salt e) (2 * klen + 2)) klen (ae_pv e) = false) ->
    let r := read_aes_entry pbkdf2 hmac E ps e in
    r_status r = ARCHIVE_FAILED /\ r_data r = [] /\
    (r_err r = ErrRequired \/ r_err r = ErrIncorrect \/ r_err r = ErrTooMany \/ r_err r = ErrCrypto).
  Proof.
    intros ps e slen klen Hl Hall. cbv zeta. unfold read_aes_entry. rewrite Hl.
    destruct (aes_try pbkdf2 TRY_FUEL 0 ps klen e) as [ps1 [err|dk]] eqn:Ht.
    - cbn [r_status r_data r_err]. split; [reflexivity|]. split; [reflexivity|].
      clear - Ht Hall. revert Ht. generalize TRY_FUEL 0 ps. induction n as [|f IH]; intros retry ps0 Ht; cbn [aes_try] in Ht.
      + inversion Ht; auto.
      + destruct (next_passphrase ps0) as [ps' p]. destruct p as [pw|].
        * destruct (pv_ok _ klen (ae_pv e)); [discriminate|].
          destruct (RETRY_LIMIT <? retry); [inversion Ht; auto|]. eapply IH; eauto.
        * destruct (0 <? retry); inversion Ht; auto.
    - destruct (aes_try_inr _ _ _ _ _ _ _ Ht) as (pw & Hin & Hdk & Hpv). subst dk.
      rewrite (Hall pw Hin) in Hpv. discriminate.
  Qed.

  (* a candidate was accepted by its verification value but the authentication code over the ciphertext does
     not match: the entry ends with a status below ARCHIVE_OK (check_authentication_code returns ARCHIVE_WARN) *)
  Theorem mac_mismatch_is_error : forall ps e slen klen ps1 dk,
    aes_lens (ae_strength e) = Some (slen, klen) ->
    aes_try pbkdf2 TRY_FUEL 0 ps klen e = (ps1, inr dk) ->
    bytes_eqb (firstn AUTH_CODE_SIZE (hmac (firstn klen (skipn klen dk)) (ae_cipher e))) (ae_mac e) = false ->
    let r := read_aes_entry pbkdf2 hmac E ps e in
    (r_status r = ARCHIVE_WARN /\ r_err r = ErrBadMac) \/ (r_status r = ARCHIVE_FAILED /\ r_err r = ErrCrypto).
  Proof.
    intros ps e slen klen ps1 dk Hl Ht Hm. cbv zeta. unfold read_aes_entry. rewrite Hl, Ht. unfold read_aes_tail.
    destruct (aes_ctr_init (firstn klen dk)) as [c|]; [|right; auto].
    destruct (aes_ctr_update E c (ae_cipher e) (length (ae_cipher e))) as [[c' plain]|]; [|right; auto].
    rewrite Hm. left. auto.
  Qed.

  Lemma TRY_FUEL_S : exists f, TRY_FUEL = S f /\ N.of_nat f = 10002.
  Proof. exists (pred TRY_FUEL). split; vm_compute; reflexivity. Qed.

  Lemma pv_ok_self : forall dk klen, pv_ok dk klen [nth (2 * klen) dk 0; nth (2 * klen + 1) dk 0] = true.
  Proof. intros. unfold pv_ok. cbn [nth]. rewrite !N.eqb_refl. reflexivity. Qed.

  (* the fields of what the writer produced *)
  Lemma write_aes_entry_fields : forall strength pw salt body ae2 e slen klen,
    write_aes_entry pbkdf2 hmac E strength pw salt body ae2 = Some e ->
    aes_lens strength = Some (slen, klen) ->
    let dk := pbkdf2 pw salt (2 * klen + 2) in
    exists c, aes_ctr_init (firstn klen dk) = Some c /\
      ae_strength e = strength /\ ae_salt e = salt /\
      ae_pv e = [nth (2 * klen) dk 0; nth (2 * klen + 1) dk 0] /\
      ae_cipher e = xor_ks E (firstn klen dk) 0 body /\
      ae_mac e = firstn AUTH_CODE_SIZE (hmac (firstn klen (skipn klen dk)) (ae_cipher e)) /\
      ae_crc e = (if ae2 then None else Some (zcrc32 0 body)).
  Proof.
    intros strength pw salt body ae2 e slen klen Hw Hl dk. unfold write_aes_entry in Hw. rewrite Hl in Hw.
    fold dk in Hw.
    destruct (aes_ctr_init (firstn klen dk)) as [c|] eqn:Hinit; [|discriminate].
    destruct (aes_ctr_update E c body (length body)) as [[c' cipher]|] eqn:Hup; [|discriminate].
    pose proof (init_St E (firstn klen dk) c Hinit) as HS0.
    destruct (aes_ctr_update_spec E (firstn klen dk) c body (length body) 0%nat HS0 (le_n _)) as (c1 & Hr1 & _).
    rewrite Hup in Hr1. injection Hr1 as Hc1 Hcipher. subst cipher.
    injection Hw as Hw. exists c. rewrite <- Hw. repeat split.
  Qed.

  (* once the writer's passphrase has been accepted, the entry decrypts to the body and passes both checks *)
  Lemma read_aes_tail_written : forall strength pw salt body ae2 e slen klen ps1,
    write_aes_entry pbkdf2 hmac E strength pw salt body ae2 = Some e ->
    aes_lens strength = Some (slen, klen) ->
    read_aes_tail hmac E ps1 klen (pbkdf2 pw salt (2 * klen + 2)) e = mkRes ps1 ARCHIVE_OK ErrNone body.
  Proof.
    intros strength pw salt body ae2 e slen klen ps1 Hw Hl.
    destruct (write_aes_entry_fields _ _ _ _ _ _ _ _ Hw Hl) as (c & Hinit & _ & _ & _ & Hci & Hmac & Hcrc).
    set (dk := pbkdf2 pw salt (2 * klen + 2)) in *.
    unfold read_aes_tail. rewrite Hinit, Hmac, Hcrc, Hci.
    pose proof (init_St E (firstn klen dk) c Hinit) as HS0.
    destruct (aes_ctr_update_spec E (firstn klen dk) c (xor_ks E (firstn klen dk) 0 body)
                (length (xor_ks E (firstn klen dk) 0 body)) 0%nat HS0 (le_n _)) as (c2 & Hr2 & _).
    rewrite Hr2. rewrite xor_ks_involutive. rewrite bytes_eqb_refl.
    destruct ae2; [reflexivity|]. rewrite N.eqb_refl. reflexivity.
  Qed.

  (* what the writer produced reads back identically when its passphrase is the first candidate *)
  Theorem aes_entry_roundtrip : forall strength pw salt body ae2 e ps rest,
    write_aes_entry pbkdf2 hmac E strength pw salt body ae2 = Some e ->
    cand ps = (-1)%Z -> items ps = pw :: rest ->
    let r := read_aes_entry pbkdf2 hmac E ps e in
    r_status r = ARCHIVE_OK /\ r_data r = body /\ r_err r = ErrNone /\ items (r_ps r) = pw :: rest.
  Proof.
    intros strength pw salt body ae2 e ps rest Hw Hc Hi.
    assert (Hr : read_aes_entry pbkdf2 hmac E ps e =
                 mkRes (mkPstate (pw :: rest) (Z.of_nat (S (length rest))) (has_cb ps) (cb_script ps))
                       ARCHIVE_OK ErrNone body).
    { destruct (aes_lens strength) as [[slen klen]|] eqn:Hl; [|unfold write_aes_entry in Hw; rewrite Hl in Hw; discriminate].
      destruct (write_aes_entry_fields _ _ _ _ _ _ _ _ Hw Hl) as (c & Hinit & Hst & Hsalt & Hpv & _).
      unfold read_aes_entry. rewrite Hst, Hl.
      destruct TRY_FUEL_S as [f [Hf Hf2]]. rewrite Hf. cbn [aes_try].
      rewrite (next_after_reset ps pw rest Hc Hi). rewrite Hsalt, Hpv, pv_ok_self.
      eapply read_aes_tail_written; eauto. }
    cbv zeta. rewrite Hr. cbn [r_status r_data r_err r_ps items]. auto.
  Qed.

  Lemma next_rot : forall ps x y l,
    items ps = x :: y :: l -> (1 < cand ps)%Z ->
    next_passphrase ps = (mkPstate (y :: l ++ [x]) (cand ps - 1)%Z (has_cb ps) (cb_script ps), Some y).
  Proof.
    intros ps x y l Hi Hc. unfold next_passphrase. rewrite Hi.
    replace (cand ps <? 0)%Z with false by (symmetry; apply Z.ltb_ge; lia).
    replace (1 <? cand ps)%Z with true by (symmetry; apply Z.ltb_lt; lia).
    reflexivity.
  Qed.

  (* retry loop while list candidates remain: the wrong ones are tried in order and rotated to the tail *)
  Lemma aes_try_skip : forall klen e pw rest wrong x l2 ps fuel retry,
    (forall w, In w wrong -> pv_ok (pbkdf2 w (ae_salt e) (2 * klen + 2)) klen (ae_pv e) = false) ->
    pv_ok (pbkdf2 pw (ae_salt e) (2 * klen + 2)) klen (ae_pv e) = true ->
    items ps = x :: (wrong ++ pw :: rest) ++ l2 ->
    cand ps = Z.of_nat (S (length (wrong ++ pw :: rest))) ->
    (length wrong < fuel)%nat -> retry + N.of_nat (length wrong) <= RETRY_LIMIT + 1 ->
    exists ps', aes_try pbkdf2 fuel retry ps klen e = (ps', inr (pbkdf2 pw (ae_salt e) (2 * klen + 2))) /\
                items ps' = pw :: rest ++ l2 ++ x :: wrong.
  Proof.
    intros klen e pw rest. induction wrong as [|w wrong IH]; intros x l2 ps fuel retry Hbad Hgood Hi Hc Hf Hr.
    - destruct fuel as [|f]; [cbn in Hf; lia|]. cbn [aes_try]. cbn [app] in Hi, Hc.
      rewrite (next_rot ps x pw (rest ++ l2)) by (rewrite ?Hi, ?Hc; cbn [app length]; auto; lia).
      rewrite Hgood. eexists. split; [reflexivity|]. cbn [items]. rewrite <- app_assoc. reflexivity.
    - destruct fuel as [|f]; [cbn in Hf; lia|]. cbn [aes_try]. cbn [app length] in Hi, Hc, Hf, Hr.
      rewrite (next_rot ps x w ((wrong ++ pw :: rest) ++ l2)) by (rewrite ?Hi, ?Hc; auto; lia).
      rewrite (Hbad w (or_introl eq_refl)).
      replace (RETRY_LIMIT <? retry) with false by (symmetry; apply N.ltb_ge; lia).
      destruct (IH w (l2 ++ [x]) (mkPstate (w :: ((wrong ++ pw :: rest) ++ l2) ++ [x]) (cand ps - 1)%Z (has_cb ps) (cb_script ps))
                   f (retry + 1)) as (ps' & Ht & Hi').
      + intros w' Hw'. apply Hbad. right. assumption.
      + assumption.
      + cbn [items]. rewrite <- app_assoc. reflexivity.
      + cbn [cand]. rewrite Hc. lia.
      + lia.
      + lia.
      + exists ps'. split; [exact Ht|]. rewrite Hi'. rewrite <- !app_assoc. reflexivity.
  Qed.

  (* (iii) a list with wrong passphrases first: they are rejected by their verification values, the right one
     decrypts the entry and ends up first in the list, the rejected ones behind it in their old order *)
  Theorem aes_entry_roundtrip_list : forall strength pw salt body ae2 e ps wrong rest slen klen,
    write_aes_entry pbkdf2 hmac E strength pw salt body ae2 = Some e ->
    aes_lens strength = Some (slen, klen) ->
    cand ps = (-1)%Z -> items ps = wrong ++ pw :: rest ->
    (forall w, In w wrong -> pv_ok (pbkdf2 w salt (2 * klen + 2)) klen (ae_pv e) = false) ->
    N.of_nat (length wrong) <= 10000 ->
    let r := read_aes_entry pbkdf2 hmac E ps e in
    r_status r = ARCHIVE_OK /\ r_data r = body /\ r_err r = ErrNone /\ items (r_ps r) = pw :: rest ++ wrong.
  Proof.
    intros strength pw salt body ae2 e ps wrong rest slen klen Hw Hl Hc Hi Hbad Hlen.
    destruct wrong as [|w wrong].
    - rewrite app_nil_r. cbn [app] in Hi. eapply aes_entry_roundtrip; eauto.
    - assert (Hr : exists ps', read_aes_entry pbkdf2 hmac E ps e = mkRes ps' ARCHIVE_OK ErrNone body /\
                               items ps' = pw :: rest ++ w :: wrong).
      { destruct (write_aes_entry_fields _ _ _ _ _ _ _ _ Hw Hl) as (c & Hinit & Hst & Hsalt & Hpv & _).
        unfold read_aes_entry. rewrite Hst, Hl.
        destruct TRY_FUEL_S as [f [Hf Hf2]]. rewrite Hf. cbn [aes_try]. cbn [app] in Hi.
        rewrite (next_after_reset ps w (wrong ++ pw :: rest) Hc Hi).
        rewrite Hsalt. rewrite (Hbad w (or_introl eq_refl)). change (RETRY_LIMIT <? 0) with false. cbv iota.
        edestruct (aes_try_skip klen e pw rest wrong w []
                     (mkPstate (w :: wrong ++ pw :: rest) (Z.of_nat (S (length (wrong ++ pw :: rest)))) (has_cb ps) (cb_script ps))
                     f (0 + 1)) as (ps' & Ht & Hi').
        + intros w' Hw'. rewrite Hsalt. apply Hbad. right. assumption.
        + rewrite Hsalt, Hpv. apply pv_ok_self.
        + cbn [items]. rewrite app_nil_r. reflexivity.
        + reflexivity.
        + cbn [length] in Hlen. lia.
        + cbn [length] in Hlen. unfold RETRY_LIMIT. lia.
        + unfold bytes in *. rewrite Ht. rewrite Hsalt. exists ps'. split; [|rewrite Hi'; reflexivity].
          eapply read_aes_tail_written; eauto. }
      destruct Hr as (ps' & Hr & Hi'). cbv zeta. rewrite Hr. cbn [r_status r_data r_err r_ps]. auto.
  Qed.

  (* ---- traditional PKWARE entries *)
  Lemma trad_try_inr : forall fuel retry ps old e ps1 k,
    trad_try fuel retry ps old e = (ps1, inr k) ->
    exists pw old', In pw (pool ps) /\ trad_init_reader old' pw (te_hdr e) = (0%Z, te_decdat e, k).
  Proof.
    induction fuel as [|f IH]; intros retry ps old e ps1 k H; cbn [trad_try] in H; [discriminate|].
    destruct (next_passphrase ps) as [ps' p] eqn:Hn.
    destruct (next_passphrase_pool _ _ _ Hn) as [Hinc Hin].
    destruct p as [pw|]; [|discriminate].
    destruct (trad_init_reader old pw (te_hdr e)) as [[r chk] k'] eqn:Hr.
    destruct ((r =? 0)%Z && (chk =? te_decdat e))%bool eqn:Hok.
    - inversion H; subst. apply andb_prop in Hok. destruct Hok as [H0 H1].
      apply Z.eqb_eq in H0. apply N.eqb_eq in H1. subst. exists pw, old. auto.
    - destruct (RETRY_LIMIT <? retry); [discriminate|].
      destruct (IH _ _ _ _ _ _ H) as (pw' & old' & Hin' & Hk). exists pw', old'. auto.
  Qed.

  (* ARCHIVE_OK for a traditionally encrypted entry only if some candidate reproduces the check byte AND the
     CRC-32 of what was decrypted equals the recorded one (this is what catches the 1/256 wrong passphrases
     that pass the check byte) *)
  Theorem trad_ok_only_if : forall ps e,
    r_status (read_trad_entry ps e) = ARCHIVE_OK ->
    exists pw old k, In pw (pool ps) /\ trad_init_reader old pw (te_hdr e) = (0%Z, te_decdat e, k) /\
      zcrc32 0 (snd (trad_decrypt_update k (te_cipher e) (length (te_cipher e)))) = te_crc e /\
      r_data (read_trad_entry ps e) = snd (trad_decrypt_update k (te_cipher e) (length (te_cipher e))).
  Proof.
    intros ps e H. unfold read_trad_entry in *.
    destruct (trad_try TRY_FUEL 0 ps trad_init_keys e) as [ps1 [err|k]] eqn:Ht; [cbn in H; discriminate|].
    destruct (trad_try_inr _ _ _ _ _ _ _ Ht) as (pw & old & Hin & Hk).
    destruct (trad_decrypt_update k (te_cipher e) (length (te_cipher e))) as [k' plain] eqn:Hd.
    destruct (zcrc32 0 plain =? te_crc e) eqn:Hc; [|cbn in H; discriminate].
    apply N.eqb_eq in Hc. exists pw, old, k. rewrite Hd. cbn [snd r_data]. auto.
  Qed.

  Theorem trad_wrong_check_is_error : forall ps e,
    (forall pw old, In pw (pool ps) -> snd (fst (trad_init_reader old pw (te_hdr e))) <> te_decdat e) ->
    let r := read_trad_entry ps e in
    r_status r = ARCHIVE_FAILED /\ r_data r = [].
  Proof.
    intros ps e Hall. cbv zeta. unfold read_trad_entry.
    destruct (trad_try TRY_FUEL 0 ps trad_init_keys e) as [ps1 [err|k]] eqn:Ht; [cbn; auto|].
    destruct (trad_try_inr _ _ _ _ _ _ _ Ht) as (pw & old & Hin & Hk).
    exfalso. apply (Hall pw old Hin). rewrite Hk. reflexivity.
  Qed.

  Theorem trad_entry_roundtrip : forall pw rnd11 chk body ps rest,
    length rnd11 = 11%nat -> cand ps = (-1)%Z -> items ps = pw :: rest ->
    let r := read_trad_entry ps (write_trad_entry pw rnd11 chk body) in
    r_status r = ARCHIVE_OK /\ r_data r = body /\ r_err r = ErrNone /\ items (r_ps r) = pw :: rest.
  Proof.
    intros pw rnd chk body ps rest Hl Hc Hi.
    assert (Hr : read_trad_entry ps (write_trad_entry pw rnd chk body) =
                 mkRes (mkPstate (pw :: rest) (Z.of_nat (S (length rest))) (has_cb ps) (cb_script ps))
                       ARCHIVE_OK ErrNone body).
    { unfold write_trad_entry.
      destruct (trad_write_header pw rnd chk) as [kw hdr] eqn:Hh.
      destruct (trad_encrypt_update kw body (length body)) as [kw' cipher] eqn:He.
      unfold read_trad_entry. destruct TRY_FUEL_S as [f [Hf Hf2]]. rewrite Hf. cbn [trad_try].
      rewrite (next_after_reset ps pw rest Hc Hi). cbn [te_hdr te_decdat te_cipher te_crc].
      rewrite (trad_header_roundtrip pw rnd chk kw hdr Hl Hh). rewrite Z.eqb_refl, N.eqb_refl. cbn [andb].
      unfold trad_encrypt_update in He. rewrite Nat.min_id, firstn_all in He.
      pose proof (trad_enc_loop_length body kw) as Hlen. rewrite He in Hlen. cbn [snd] in Hlen.
      unfold trad_decrypt_update. rewrite Nat.min_id, firstn_all.
      rewrite (trad_dec_enc_loop _ _ _ _ He). rewrite N.eqb_refl. reflexivity. }
    cbv zeta. rewrite Hr. cbn [r_status r_data r_err r_ps items]. auto.
  Qed.
End ReaderProofs.
