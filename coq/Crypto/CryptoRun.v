(* val -> val front end of the passphrase/crypto model (correspondence protocol, family "crypto").
   Case = ( op ... ):
     0 crc     (0 crc0 xBODY)                                     -> crc
     1 trad    (1 xPWW xPWR xRND11 chk xBODY (parts_e) (parts_d)) -> (xHDR xCIPHER (k0 k1 k2) r chk xPLAIN (k0 k1 k2))
     2 ctr     (2 xKEY xBODY (parts) ((xKEY xBLK xENC) ...))          -> (0 xOUT (outlen ...) xNONCE pos) | (-1)
     3 pp      (3 has_cb (script) (ops))                          -> ((tag res (items) cand) ...)
     5 decide  (5 kind has_cb (script) (items) (entries) tables)  -> ((status err xDATA (items) cand) ...)
   parts = ((in_len out_len) ...) cut sequentially from the body; what is left over forms a last chunk. *)
From Coq Require Import List ZArith NArith Bool.
From LA Require Import Base.Val Gen.Defines Crypto.CryptoDefs.
Import ListNotations.
Local Open Scope N_scope.

Definition natval (v : val) : nat := N.to_nat (nval v).

(* cut [body] into (chunk, out_len) calls *)
Fixpoint cut (parts : list val) (body : list N) : list (list N * nat) :=
  match parts with
  | [] => match body with [] => [] | _ => [(body, length body)] end
  | p :: tl =>
    let il := natval (vnth (lval p) 0) in
    let ol := natval (vnth (lval p) 1) in
    (firstn il body, ol) :: cut tl (skipn il body)
  end.

Definition val_of_keys (k : tkeys) : val := VL [VN (k0 k); VN (k1 k); VN (k2 k)].

Definition run_crc (l : list val) : val := VN (zcrc32 (nval (vnth l 1)) (bval (vnth l 2))).

Definition run_trad (l : list val) : val :=
  let pww := bval (vnth l 1) in
  let pwr := bval (vnth l 2) in
  let rnd := bval (vnth l 3) in
  let chk := nval (vnth l 4) in
  let body := bval (vnth l 5) in
  let '(kw, hdr) := trad_write_header pww rnd chk in
  let '(kw', cipher) := trad_encrypt_chunks kw (cut (lval (vnth l 6)) body) in
  let '(r, crcchk, kr) := trad_init_reader (mkKeys 0 0 0) pwr hdr in
  let '(kr', plain) := trad_decrypt_chunks kr (cut (lval (vnth l 7)) cipher) in
  VL [VB hdr; VB cipher; val_of_keys kw'; VI r; VN crcchk; VB plain; val_of_keys kr'].

(* the block cipher as a finite table of (key, block, encrypted block); a block that is not in the table
   encrypts to sixteen 256s, which shows up as an out-of-range byte in the output *)
Definition missing_block : list N := repeat 256 16.
Fixpoint lookup_block (tbl : list (list N * list N * list N)) (k b : list N) : list N :=
  match tbl with
  | [] => missing_block
  | (x, y, v) :: tl => if bytes_eqb x k && bytes_eqb y b then v else lookup_block tl k b
  end.
Definition table2_of_val (v : val) : list (list N * list N * list N) :=
  map (fun p => (bval (vnth (lval p) 0), bval (vnth (lval p) 1), bval (vnth (lval p) 2))) (lval v).
Definition E_of_table (tbl : list (list N * list N * list N)) : list N -> list N -> list N := lookup_block tbl.

(* like ctr_chunks, but also reports every *out_len *)
Fixpoint ctr_chunks_lens (E : list N -> list N -> list N) (c : cctx) (chunks : list (list N * nat))
  : option (cctx * list N * list nat) :=
  match chunks with
  | [] => Some (c, [], [])
  | (ch, ol) :: tl =>
    match aes_ctr_update E c ch ol with
    | None => None
    | Some (c1, o1) =>
      match ctr_chunks_lens E c1 tl with
      | None => None
      | Some (c2, o2, ls) => Some (c2, o1 ++ o2, length o1 :: ls)
      end
    end
  end.

Definition run_ctr (l : list val) : val :=
  let key := bval (vnth l 1) in
  let body := bval (vnth l 2) in
  let E := E_of_table (table2_of_val (vnth l 4)) in
  match aes_ctr_init key with
  | None => VL [VI (-1)]
  | Some c =>
    match ctr_chunks_lens E c (cut (lval (vnth l 3)) body) with
    | None => VErr 1
    | Some (c', out, lens) =>
      if existsb (fun b => 255 <? b) out then VErr 2
      else VL [VI 0; VB out; VL (map (fun n => VN (N.of_nat n)) lens); VB (nonce c'); VN (N.of_nat (epos c'))]
    end
  end.

Definition script_of_val (v : val) : list (option bytes) :=
  map (fun x => match lval x with [p] => Some (bval p) | _ => None end) (lval v).

Definition val_of_pstate_items (s : pstate) : val := VL (map VB (items s)).

Fixpoint run_pp_ops (s : pstate) (ops : list val) : list val :=
  match ops with
  | [] => []
  | o :: tl =>
    let ol := lval o in
    let '(s', tag, res) :=
      match vnth ol 0 with
      | VI 0%Z => let '(s1, r) := next_passphrase s in (s1, 0%Z, Vopt VB r)
      | VI 1%Z => (reset_passphrase s, 1%Z, VL [])
      | _ => let '(s1, st) := add_passphrase s (bval (vnth ol 1)) in (s1, 2%Z, VL [VI st])
      end in
    VL [VI tag; res; val_of_pstate_items s'; VI (cand s')] :: run_pp_ops s' tl
  end.

Definition run_pp (l : list val) : val :=
  let s0 := if boolval (vnth l 1) then set_callback pp_init (script_of_val (vnth l 2)) else pp_init in
  VL (run_pp_ops s0 (lval (vnth l 3))).

(* ---- decision logic on real archive fields; PBKDF2 / HMAC / AES come as tables computed outside *)
Fixpoint lookup2 (tbl : list (list N * list N * list N)) (a b : list N) : list N :=
  match tbl with
  | [] => []
  | (x, y, v) :: tl => if bytes_eqb x a && bytes_eqb y b then v else lookup2 tl a b
  end.
Definition val_of_result (r : read_result) : val :=
  VL [VI (r_status r); VI (rerr_code (r_err r)); VB (r_data r); val_of_pstate_items (r_ps r); VI (cand (r_ps r))].

Definition trad_entry_of_val (v : val) : trad_entry :=
  let l := lval v in mkTradEntry (bval (vnth l 0)) (nval (vnth l 1)) (bval (vnth l 2)) (nval (vnth l 3)).
Definition aes_entry_of_val (v : val) : aes_entry :=
  let l := lval v in
  mkAesEntry (nval (vnth l 0)) (bval (vnth l 1)) (bval (vnth l 2)) (bval (vnth l 3)) (bval (vnth l 4))
             (match lval (vnth l 5) with [c] => Some (nval c) | _ => None end).

(* every entry is preceded by the reset that the zip reader's read_header does *)
Fixpoint run_entries (rd : pstate -> val -> read_result) (s : pstate) (es : list val) : list val :=
  match es with
  | [] => []
  | e :: tl => let r := rd (reset_passphrase s) e in val_of_result r :: run_entries rd (r_ps r) tl
  end.

Definition run_decide (l : list val) : val :=
  let s0 := if boolval (vnth l 2) then set_callback pp_init (script_of_val (vnth l 3)) else pp_init in
  let s1 := fold_left (fun s p => fst (add_passphrase s (bval p))) (lval (vnth l 4)) s0 in
  let es := lval (vnth l 5) in
  match vnth l 1 with
  | VI 0%Z => VL (run_entries (fun s e => read_trad_entry s (trad_entry_of_val e)) s1 es)
  | _ =>
    let tb := lval (vnth l 6) in
    let kdf := table2_of_val (vnth tb 0) in      (* (passphrase, salt, derived key) *)
    let mac := table2_of_val (vnth tb 1) in      (* (mac key, ciphertext, hmac) *)
    let E := E_of_table (table2_of_val (vnth tb 2)) in
    VL (run_entries (fun s e => read_aes_entry (fun pw salt _ => lookup2 kdf pw salt) (lookup2 mac) E s
                                               (aes_entry_of_val e)) s1 es)
  end.

Definition run (v : val) : val :=
  let l := lval v in
  match vnth l 0 with
  | VI 0%Z => run_crc l
  | VI 1%Z => run_trad l
  | VI 2%Z => run_ctr l
  | VI 3%Z => run_pp l
  | VI 5%Z => run_decide l
  | _ => VErr 9
  end.
