(* cpio header blocks: which bytes end up in which field, and what the reader's parsers get from them. *)
From Coq Require Import List ZArith Bool Lia.
From LA Require Import Gen.Defines Gen.FmtLayout Fmt.FmtNumDefs Fmt.FmtNumProofs Fmt.FmtTarDefs Fmt.FmtBufProofs
  Fmt.FmtCpioDefs.
Import ListNotations.

Lemma nth_error_split' : forall (ws : list wr) k w, nth_error ws k = Some w ->
  ws = firstn k ws ++ w :: skipn (S k) ws.
Proof.
  induction ws as [|x t IH]; intros k w H; destruct k; cbn [nth_error] in H; try discriminate.
  - inversion H; subst. reflexivity.
  - cbn [firstn skipn app]. f_equal. apply IH. assumption.
Qed.

Lemma apply_writes_nth : forall ws buf k o bs,
  nth_error ws k = Some (o, bs) -> Forall (inb (length buf)) ws ->
  Forall (away o (length bs)) (skipn (S k) ws) ->
  slice o (length bs) (apply_writes ws buf) = bs.
Proof.
  intros ws buf k o bs Hn HI HA. pose proof (nth_error_split' ws k (o, bs) Hn) as Hs.
  revert HI. rewrite Hs at 1 2. intros HI. apply apply_writes_field; assumption.
Qed.

Lemma apply_writes_nth_n : forall ws buf k o bs n,
  n = length bs -> nth_error ws k = Some (o, bs) -> Forall (inb (length buf)) ws ->
  Forall (away o n) (skipn (S k) ws) ->
  slice o n (apply_writes ws buf) = bs.
Proof. intros. subst n. eapply apply_writes_nth; eassumption. Qed.

Lemma tuple4_inv : forall {A B C D} (a a' : A) (b b' : B) (c c' : C) (d d' : D),
  (a, b, c, d) = (a', b', c', d') -> a = a' /\ b = b' /\ c = c' /\ d = d'.
Proof. intros. inversion H. auto. Qed.
Lemma tuple3_inv : forall {A B C} (a a' : A) (b b' : B) (c c' : C),
  (a, b, c) = (a', b', c') -> a = a' /\ b = b' /\ c = c'.
Proof. intros. inversion H. auto. Qed.

Ltac st_contra H :=
  unfold ST_OK, ST_WARN, ST_FAILED, ST_FATAL, ARCHIVE_OK, ARCHIVE_WARN, ARCHIVE_FAILED, ARCHIVE_FATAL in H; lia.
Ltac bad4 H := apply tuple4_inv in H; let H2 := fresh in destruct H as [_ [H2 _]]; st_contra H2.
Ltac bad3 H := apply tuple3_inv in H; let H2 := fresh in destruct H as [H2 _]; st_contra H2.

Lemma firstn_app_exact : forall (l1 l2 : list Z) n, length l1 = n -> firstn n (l1 ++ l2) = l1.
Proof.
  intros l1 l2 n H. subst n. rewrite firstn_app. rewrite Nat.sub_diag. rewrite firstn_all. cbn [firstn]. apply app_nil_r.
Qed.

Ltac fcons := repeat match goal with
  | |- Forall _ (_ :: _) => apply Forall_cons
  | |- Forall _ [] => apply Forall_nil
  end.

(* ------------------------------------------------------------------ odc *)
Ltac leafo :=
  unfold inb, away; cbn [fst snd length]; rewrite ?odc_format_octal_length, ?zeros_length;
  unfold ODC_c_magic_offset, ODC_c_magic_size, ODC_c_dev_offset, ODC_c_dev_size, ODC_c_ino_offset, ODC_c_ino_size,
    ODC_c_mode_offset, ODC_c_mode_size, ODC_c_uid_offset, ODC_c_uid_size, ODC_c_gid_offset, ODC_c_gid_size,
    ODC_c_nlink_offset, ODC_c_nlink_size, ODC_c_rdev_offset, ODC_c_rdev_size, ODC_c_mtime_offset, ODC_c_mtime_size,
    ODC_c_namesize_offset, ODC_c_namesize_size, ODC_c_filesize_offset, ODC_c_filesize_size in *; lia.

Lemma odc_filesize_length : forall e, length (snd (odc_filesize e)) = ODC_c_filesize_size.
Proof. intros. unfold odc_filesize. destruct (0 <? length (sym_of e)); apply odc_format_octal_length. Qed.

Lemma odc_fields_inb : forall ino e, Forall (inb 76) (odc_fields ino e).
Proof. intros. unfold odc_fields. fcons; try leafo. unfold inb; cbn [fst snd]; rewrite odc_filesize_length; leafo. Qed.

Theorem odc_block_length : forall ino e, length (odc_block ino e) = 76.
Proof.
  intros. unfold odc_block. rewrite apply_writes_length; rewrite zeros_length; [reflexivity | apply odc_fields_inb].
Qed.

Ltac odc_field k :=
  unfold odc_block;
  apply (apply_writes_nth_n _ _ k);
  [ rewrite ?odc_format_octal_length, ?odc_filesize_length; reflexivity
  | reflexivity
  | rewrite zeros_length; apply odc_fields_inb
  | unfold odc_fields; cbn [skipn]; fcons; try leafo;
    try (unfold away; cbn [fst snd]; rewrite ?odc_filesize_length; leafo) ].

Section OdcBlock.
Variable ino : Z.
Variable e : entry.

Lemma odc_slice_dev : slice ODC_c_dev_offset ODC_c_dev_size (odc_block ino e) = snd (odc_format_octal (s64 (e_dev e)) ODC_c_dev_size).
Proof. odc_field 1. Qed.
Lemma odc_slice_ino : slice ODC_c_ino_offset ODC_c_ino_size (odc_block ino e) = snd (odc_format_octal (Z.land ino 262143) ODC_c_ino_size).
Proof. odc_field 2. Qed.
Lemma odc_slice_mode : slice ODC_c_mode_offset ODC_c_mode_size (odc_block ino e) = snd (odc_format_octal (e_mode e) ODC_c_mode_size).
Proof. odc_field 3. Qed.
Lemma odc_slice_uid : slice ODC_c_uid_offset ODC_c_uid_size (odc_block ino e) = snd (odc_format_octal (e_uid e) ODC_c_uid_size).
Proof. odc_field 4. Qed.
Lemma odc_slice_gid : slice ODC_c_gid_offset ODC_c_gid_size (odc_block ino e) = snd (odc_format_octal (e_gid e) ODC_c_gid_size).
Proof. odc_field 5. Qed.
Lemma odc_slice_nlink : slice ODC_c_nlink_offset ODC_c_nlink_size (odc_block ino e) = snd (odc_format_octal (e_nlink e) ODC_c_nlink_size).
Proof. odc_field 6. Qed.
Lemma odc_slice_rdev : slice ODC_c_rdev_offset ODC_c_rdev_size (odc_block ino e)
  = snd (odc_format_octal (if is_dev e then s64 (e_rdev e) else 0%Z) ODC_c_rdev_size).
Proof. odc_field 7. Qed.
Lemma odc_slice_mtime : slice ODC_c_mtime_offset ODC_c_mtime_size (odc_block ino e) = snd (odc_format_octal (e_mtime e) ODC_c_mtime_size).
Proof. odc_field 8. Qed.
Lemma odc_slice_namesize : slice ODC_c_namesize_offset ODC_c_namesize_size (odc_block ino e)
  = snd (odc_format_octal (pathlength_of e) ODC_c_namesize_size).
Proof. odc_field 9. Qed.
Lemma odc_slice_filesize : slice ODC_c_filesize_offset ODC_c_filesize_size (odc_block ino e) = snd (odc_filesize e).
Proof. odc_field 10. Qed.
Lemma odc_slice_magic : slice ODC_c_magic_offset ODC_c_magic_size (odc_block ino e) = [48; 55; 48; 55; 48; 55]%Z.
Proof.
  change [48; 55; 48; 55; 48; 55]%Z with (snd (odc_format_octal 29127 ODC_c_magic_size)). odc_field 0.
Qed.

End OdcBlock.

(* what the reader's atol8 gets from an odc field: the value when it fits, the saturated maximum otherwise *)
Theorem odc_field_decodes : forall v w, (0 < w <= 20)%nat ->
  cpio_atol8 (snd (odc_format_octal v w)) = if ((0 <=? v) && (v <? zpow 8 w))%Z then v else (zpow 8 w - 1)%Z.
Proof.
  intros v w Hw.
  assert (zpow 8 w <= zpow 8 20)%Z by (unfold zpow; apply Z.pow_le_mono_r; lia).
  change (zpow 8 20) with 1152921504606846976%Z in H.
  destruct ((0 <=? v) && (v <? zpow 8 w))%Z eqn:E.
  - apply andb_true_iff in E. destruct E as [E1 E2]. apply Z.leb_le in E1. apply Z.ltb_lt in E2.
    assert (Hf : fst (odc_format_octal v w) = 0%Z).
    { unfold odc_format_octal. cbv zeta.
      replace ((0 <=? v) && (v <=? zpow 8 w - 1))%Z with true; [reflexivity|].
      symmetry. apply andb_true_iff. split; apply Z.leb_le; lia. }
    apply odc_format_octal_ok in Hf. destruct Hf as [_ Hb]. rewrite Hb.
    apply octal_roundtrip_cpio; unfold two63; lia.
  - apply odc_format_octal_saturates; [assumption|].
    intros [H1 H2]. apply andb_false_iff in E. destruct E as [E|E]; [apply Z.leb_gt in E | apply Z.ltb_ge in E]; lia.
Qed.

Lemma negb_eqb0c : forall r, negb (r =? 0)%Z = false -> r = 0%Z.
Proof. intros r H. apply negb_false_iff in H. apply Z.eqb_eq. assumption. Qed.

Lemma pick_warn_ok : forall c ret, pick c ST_WARN ret = ST_OK -> c = false /\ ret = ST_OK.
Proof.
  intros c ret H. unfold pick in H. destruct c; [|auto].
  unfold ST_WARN, ST_OK, ARCHIVE_WARN, ARCHIVE_OK in H. lia.
Qed.

(* what a written odc header (status OK or WARN) looks like *)
Lemma odc_written : forall st e st' ret out rem,
  odc_write_header st e = (st', ret, out, rem) -> (ST_WARN <= ret)%Z ->
  exists ino, out = odc_block ino e ++ ob (e_path e) ++ [0%Z] ++ sym_of e /\ ret = odc_warn e
              /\ fst (odc_filesize e) = 0%Z /\ (lenZ (ob (e_path e)) + 1 <= 262143)%Z.
Proof.
  intros st e st' ret out rem H Hret. unfold odc_write_header in H.
  destruct (262143 <? lenZ (ob (e_path e)) + 1)%Z eqn:El.
  - apply tuple4_inv in H. destruct H as [_ [H2 _]]. subst ret. st_contra Hret.
  - apply Z.ltb_ge in El.
    destruct (synthesize_ino st e) as [st1 ino].
    destruct (ino <? 0)%Z; [apply tuple4_inv in H; destruct H as [_ [H2 _]]; subst ret; st_contra Hret|].
    destruct (262143 <? ino)%Z; [apply tuple4_inv in H; destruct H as [_ [H2 _]]; subst ret; st_contra Hret|].
    destruct (negb (fst (odc_filesize e) =? 0)%Z) eqn:E; [apply tuple4_inv in H; destruct H as [_ [H2 _]]; subst ret; st_contra Hret|].
    apply tuple4_inv in H. destruct H as [_ [H2 [H3 _]]].
    exists ino. apply negb_false_iff in E. apply Z.eqb_eq in E. repeat split; auto.
Qed.

(* a written header has an exact file size field *)
Theorem odc_ok_filesize : forall st e st' ret out rem,
  odc_write_header st e = (st', ret, out, rem) -> (ST_WARN <= ret)%Z ->
  cpio_atol8 (slice ODC_c_filesize_offset ODC_c_filesize_size (firstn 76 out))
  = if (0 <? length (sym_of e)) then lenZ (sym_of e) else body_size e.
Proof.
  intros st e st' ret out rem H Hret. destruct (odc_written _ _ _ _ _ _ H Hret) as [ino [Hout [_ [E _]]]]. subst out.
  rewrite firstn_app_exact by apply odc_block_length.
  rewrite odc_slice_filesize.
  unfold odc_filesize in *. destruct (0 <? length (sym_of e)).
  - apply odc_format_octal_ok in E. destruct E as [Hv Hb]. rewrite Hb.
    apply octal_roundtrip_cpio; [assumption|]. change (zpow 8 ODC_c_filesize_size) with 8589934592%Z in Hv. unfold two63. lia.
  - apply odc_format_octal_ok in E. destruct E as [Hv Hb]. rewrite Hb.
    apply octal_roundtrip_cpio; [assumption|]. change (zpow 8 ODC_c_filesize_size) with 8589934592%Z in Hv. unfold two63. lia.
Qed.

Lemma odc_field_ok_decodes : forall v w, (0 < w <= 20)%nat -> fst (odc_format_octal v w) = 0%Z ->
  cpio_atol8 (snd (odc_format_octal v w)) = v.
Proof.
  intros v w Hw H. apply odc_format_octal_ok in H. destruct H as [Hv Hb]. rewrite Hb.
  assert (zpow 8 w <= zpow 8 20)%Z by (unfold zpow; apply Z.pow_le_mono_r; lia).
  change (zpow 8 20) with 1152921504606846976%Z in H.
  apply octal_roundtrip_cpio; unfold two63; lia.
Qed.

(* status OK: uid, gid, nlink, mtime, rdev (device nodes) and the name size are exact *)
Section OdcOk.
Variables (st st' : cpio_state) (e : entry) (out : list Z) (rem : Z).
Hypothesis Hw : odc_write_header st e = (st', ST_OK, out, rem).

Lemma odc_ok_parts : exists ino, firstn 76 out = odc_block ino e /\ odc_warn e = ST_OK /\ (lenZ (ob (e_path e)) + 1 <= 262143)%Z.
Proof.
  destruct (odc_written _ _ _ _ _ _ Hw ltac:(unfold ST_WARN, ST_OK, ARCHIVE_WARN, ARCHIVE_OK; lia)) as [ino [Hout [Hr [_ Hl]]]].
  exists ino. subst out. rewrite firstn_app_exact by apply odc_block_length. auto.
Qed.

Lemma odc_warn_ok :
  fst (odc_format_octal (e_uid e) ODC_c_uid_size) = 0%Z /\ fst (odc_format_octal (e_gid e) ODC_c_gid_size) = 0%Z
  /\ fst (odc_format_octal (e_nlink e) ODC_c_nlink_size) = 0%Z
  /\ (is_dev e = true -> fst (odc_format_octal (s64 (e_rdev e)) ODC_c_rdev_size) = 0%Z)
  /\ fst (odc_format_octal (e_mtime e) ODC_c_mtime_size) = 0%Z.
Proof.
  destruct odc_ok_parts as [ino [_ [H _]]]. unfold odc_warn in H.
  apply pick_warn_ok in H. destruct H as [C5 H]. apply pick_warn_ok in H. destruct H as [C4 H].
  apply pick_warn_ok in H. destruct H as [C3 H]. apply pick_warn_ok in H. destruct H as [C2 H].
  apply pick_warn_ok in H. destruct H as [C1 _].
  repeat split.
  - apply negb_eqb0c. assumption.
  - apply negb_eqb0c. assumption.
  - apply negb_eqb0c. assumption.
  - intros Hd. rewrite Hd in C4. cbn [andb] in C4. apply negb_eqb0c. assumption.
  - apply negb_eqb0c. assumption.
Qed.

Theorem odc_ok_uid : cpio_atol8 (slice ODC_c_uid_offset ODC_c_uid_size (firstn 76 out)) = e_uid e.
Proof.
  destruct odc_ok_parts as [ino [Hb _]]. rewrite Hb. rewrite odc_slice_uid.
  apply odc_field_ok_decodes; [unfold ODC_c_uid_size; lia | apply odc_warn_ok].
Qed.
Theorem odc_ok_gid : cpio_atol8 (slice ODC_c_gid_offset ODC_c_gid_size (firstn 76 out)) = e_gid e.
Proof.
  destruct odc_ok_parts as [ino [Hb _]]. rewrite Hb. rewrite odc_slice_gid.
  apply odc_field_ok_decodes; [unfold ODC_c_gid_size; lia | apply odc_warn_ok].
Qed.
Theorem odc_ok_nlink : cpio_atol8 (slice ODC_c_nlink_offset ODC_c_nlink_size (firstn 76 out)) = e_nlink e.
Proof.
  destruct odc_ok_parts as [ino [Hb _]]. rewrite Hb. rewrite odc_slice_nlink.
  apply odc_field_ok_decodes; [unfold ODC_c_nlink_size; lia | apply odc_warn_ok].
Qed.
Theorem odc_ok_mtime : cpio_atol8 (slice ODC_c_mtime_offset ODC_c_mtime_size (firstn 76 out)) = e_mtime e.
Proof.
  destruct odc_ok_parts as [ino [Hb _]]. rewrite Hb. rewrite odc_slice_mtime.
  apply odc_field_ok_decodes; [unfold ODC_c_mtime_size; lia | apply odc_warn_ok].
Qed.
Theorem odc_ok_rdev : is_dev e = true ->
  cpio_atol8 (slice ODC_c_rdev_offset ODC_c_rdev_size (firstn 76 out)) = s64 (e_rdev e).
Proof.
  intros Hd. destruct odc_ok_parts as [ino [Hb _]]. rewrite Hb. rewrite odc_slice_rdev. rewrite Hd.
  apply odc_field_ok_decodes; [unfold ODC_c_rdev_size; lia | apply odc_warn_ok; assumption].
Qed.
Theorem odc_ok_namesize :
  cpio_atol8 (slice ODC_c_namesize_offset ODC_c_namesize_size (firstn 76 out)) = (lenZ (ob (e_path e)) + 1)%Z.
Proof.
  destruct odc_ok_parts as [ino [Hb [_ Hl]]]. rewrite Hb. rewrite odc_slice_namesize.
  rewrite odc_field_decodes by (unfold ODC_c_namesize_size; lia).
  unfold pathlength_of, s32. unfold lenZ in *.
  rewrite Z.mod_small by lia.
  change (zpow 8 ODC_c_namesize_size) with 262144%Z.
  match goal with |- context [if ?c then _ else _] => replace c with true end; [lia|].
  symmetry. apply andb_true_iff. split; [apply Z.leb_le | apply Z.ltb_lt]; lia.
Qed.
End OdcOk.

(* ------------------------------------------------------------------ newc *)
Ltac leafn :=
  unfold inb, away; cbn [fst snd length]; rewrite ?newc_format_hex_length, ?zeros_length;
  unfold NEWC_c_magic_offset, NEWC_c_magic_size, NEWC_c_ino_offset, NEWC_c_ino_size,
    NEWC_c_mode_offset, NEWC_c_mode_size, NEWC_c_uid_offset, NEWC_c_uid_size, NEWC_c_gid_offset, NEWC_c_gid_size,
    NEWC_c_nlink_offset, NEWC_c_nlink_size, NEWC_c_mtime_offset, NEWC_c_mtime_size, NEWC_c_filesize_offset,
    NEWC_c_filesize_size, NEWC_c_devmajor_offset, NEWC_c_devmajor_size, NEWC_c_devminor_offset, NEWC_c_devminor_size,
    NEWC_c_rdevmajor_offset, NEWC_c_rdevmajor_size, NEWC_c_rdevminor_offset, NEWC_c_rdevminor_size,
    NEWC_c_namesize_offset, NEWC_c_namesize_size, NEWC_c_checksum_offset, NEWC_c_checksum_size, NEWC_c_header_size in *; lia.

Lemma newc_filesize_length : forall e, length (snd (newc_filesize e)) = NEWC_c_filesize_size.
Proof. intros. unfold newc_filesize. destruct (0 <? length (sym_of e)); apply newc_format_hex_length. Qed.

Lemma newc_fields_inb : forall e, Forall (inb 110) (newc_fields e).
Proof. intros. unfold newc_fields. fcons; try leafn. unfold inb; cbn [fst snd]; rewrite newc_filesize_length; leafn. Qed.

Theorem newc_block_length : forall e, length (newc_block e) = 110.
Proof.
  intros. unfold newc_block. rewrite apply_writes_length; rewrite zeros_length; [reflexivity | apply newc_fields_inb].
Qed.

Ltac newc_field k :=
  unfold newc_block;
  apply (apply_writes_nth_n _ _ k);
  [ rewrite ?newc_format_hex_length, ?newc_filesize_length; reflexivity
  | reflexivity
  | rewrite zeros_length; apply newc_fields_inb
  | unfold newc_fields; cbn [skipn]; fcons; try leafn;
    try (unfold away; cbn [fst snd]; rewrite ?newc_filesize_length; leafn) ].

Section NewcBlock.
Variable e : entry.
Lemma newc_slice_devmajor : slice NEWC_c_devmajor_offset NEWC_c_devmajor_size (newc_block e) = snd (newc_format_hex (dev_major (e_dev e)) NEWC_c_devmajor_size).
Proof. newc_field 1. Qed.
Lemma newc_slice_devminor : slice NEWC_c_devminor_offset NEWC_c_devminor_size (newc_block e) = snd (newc_format_hex (dev_minor (e_dev e)) NEWC_c_devminor_size).
Proof. newc_field 2. Qed.
Lemma newc_slice_ino : slice NEWC_c_ino_offset NEWC_c_ino_size (newc_block e) = snd (newc_format_hex (Z.land (e_ino e) 4294967295) NEWC_c_ino_size).
Proof. newc_field 3. Qed.
Lemma newc_slice_mode : slice NEWC_c_mode_offset NEWC_c_mode_size (newc_block e) = snd (newc_format_hex (e_mode e) NEWC_c_mode_size).
Proof. newc_field 4. Qed.
Lemma newc_slice_uid : slice NEWC_c_uid_offset NEWC_c_uid_size (newc_block e) = snd (newc_format_hex (e_uid e) NEWC_c_uid_size).
Proof. newc_field 5. Qed.
Lemma newc_slice_gid : slice NEWC_c_gid_offset NEWC_c_gid_size (newc_block e) = snd (newc_format_hex (e_gid e) NEWC_c_gid_size).
Proof. newc_field 6. Qed.
Lemma newc_slice_nlink : slice NEWC_c_nlink_offset NEWC_c_nlink_size (newc_block e) = snd (newc_format_hex (e_nlink e) NEWC_c_nlink_size).
Proof. newc_field 7. Qed.
Lemma newc_slice_rdevmajor : slice NEWC_c_rdevmajor_offset NEWC_c_rdevmajor_size (newc_block e)
  = snd (newc_format_hex (if is_dev e then dev_major (e_rdev e) else 0%Z) NEWC_c_rdevmajor_size).
Proof. newc_field 8. Qed.
Lemma newc_slice_rdevminor : slice NEWC_c_rdevminor_offset NEWC_c_rdevminor_size (newc_block e)
  = snd (newc_format_hex (if is_dev e then dev_minor (e_rdev e) else 0%Z) NEWC_c_rdevminor_size).
Proof. newc_field 9. Qed.
Lemma newc_slice_mtime : slice NEWC_c_mtime_offset NEWC_c_mtime_size (newc_block e) = snd (newc_format_hex (e_mtime e) NEWC_c_mtime_size).
Proof. newc_field 10. Qed.
Lemma newc_slice_namesize : slice NEWC_c_namesize_offset NEWC_c_namesize_size (newc_block e) = snd (newc_format_hex (pathlength_of e) NEWC_c_namesize_size).
Proof. newc_field 11. Qed.
Lemma newc_slice_checksum : slice NEWC_c_checksum_offset NEWC_c_checksum_size (newc_block e) = snd (newc_format_hex 0 NEWC_c_checksum_size).
Proof. newc_field 12. Qed.
Lemma newc_slice_filesize : slice NEWC_c_filesize_offset NEWC_c_filesize_size (newc_block e) = snd (newc_filesize e).
Proof. newc_field 13. Qed.
Lemma newc_slice_magic : slice NEWC_c_magic_offset NEWC_c_magic_size (newc_block e) = [48; 55; 48; 55; 48; 49]%Z.
Proof.
  change [48; 55; 48; 55; 48; 49]%Z with (snd (newc_format_hex 460545 NEWC_c_magic_size)). newc_field 0.
Qed.
End NewcBlock.

Theorem newc_field_decodes : forall v w, (0 < w <= 15)%nat ->
  cpio_atol16 (snd (newc_format_hex v w)) = if ((0 <=? v) && (v <? zpow 16 w))%Z then v else (zpow 16 w - 1)%Z.
Proof.
  intros v w Hw.
  assert (zpow 16 w <= zpow 16 15)%Z by (unfold zpow; apply Z.pow_le_mono_r; lia).
  change (zpow 16 15) with 1152921504606846976%Z in H.
  destruct ((0 <=? v) && (v <? zpow 16 w))%Z eqn:E.
  - apply andb_true_iff in E. destruct E as [E1 E2]. apply Z.leb_le in E1. apply Z.ltb_lt in E2.
    assert (Hf : fst (newc_format_hex v w) = 0%Z).
    { unfold newc_format_hex. cbv zeta.
      replace ((0 <=? v) && (v <=? zpow 16 w - 1))%Z with true; [reflexivity|].
      symmetry. apply andb_true_iff. split; apply Z.leb_le; lia. }
    apply newc_format_hex_ok in Hf. destruct Hf as [_ Hb]. rewrite Hb.
    apply hex_roundtrip_cpio; unfold two63; lia.
  - apply newc_format_hex_saturates; [assumption|].
    intros [H1 H2]. apply andb_false_iff in E. destruct E as [E|E]; [apply Z.leb_gt in E | apply Z.ltb_ge in E]; lia.
Qed.

Lemma newc_written : forall e ret out rem,
  newc_write_header e = (ret, out, rem) -> (ST_WARN <= ret)%Z ->
  firstn 110 out = newc_block e /\ ret = newc_warn e /\ fst (newc_filesize e) = 0%Z.
Proof.
  intros e ret out rem H Hret. unfold newc_write_header in H. cbv zeta in H.
  destruct (negb (fst (newc_filesize e) =? 0)%Z) eqn:E.
  - apply tuple3_inv in H. destruct H as [H1 _]. subst ret. st_contra Hret.
  - apply tuple3_inv in H. destruct H as [H1 [Hout _]]. subst out.
    apply negb_false_iff in E. apply Z.eqb_eq in E. repeat split; auto.
    destruct (0 <? length (sym_of e)); repeat rewrite <- app_assoc; apply firstn_app_exact; apply newc_block_length.
Qed.

Theorem newc_ok_filesize : forall e ret out rem,
  newc_write_header e = (ret, out, rem) -> (ST_WARN <= ret)%Z ->
  cpio_atol16 (slice NEWC_c_filesize_offset NEWC_c_filesize_size (firstn 110 out))
  = if (0 <? length (sym_of e)) then lenZ (sym_of e) else body_size e.
Proof.
  intros e ret out rem H Hret. destruct (newc_written _ _ _ _ H Hret) as [Hout [_ E]].
  rewrite Hout. rewrite newc_slice_filesize.
  unfold newc_filesize in *. destruct (0 <? length (sym_of e)).
  + apply newc_format_hex_ok in E. destruct E as [Hv Hb]. rewrite Hb.
    apply hex_roundtrip_cpio; [assumption|]. change (zpow 16 NEWC_c_filesize_size) with 4294967296%Z in Hv. unfold two63. lia.
  + apply newc_format_hex_ok in E. destruct E as [Hv Hb]. rewrite Hb.
    apply hex_roundtrip_cpio; [assumption|]. change (zpow 16 NEWC_c_filesize_size) with 4294967296%Z in Hv. unfold two63. lia.
Qed.

Lemma newc_field_ok_decodes : forall v w, (0 < w <= 15)%nat -> fst (newc_format_hex v w) = 0%Z ->
  cpio_atol16 (snd (newc_format_hex v w)) = v.
Proof.
  intros v w Hw H. apply newc_format_hex_ok in H. destruct H as [Hv Hb]. rewrite Hb.
  assert (zpow 16 w <= zpow 16 15)%Z by (unfold zpow; apply Z.pow_le_mono_r; lia).
  change (zpow 16 15) with 1152921504606846976%Z in H.
  apply hex_roundtrip_cpio; unfold two63; lia.
Qed.

Section NewcOk.
Variables (e : entry) (out : list Z) (rem : Z).
Hypothesis Hw : newc_write_header e = (ST_OK, out, rem).

Lemma newc_warn_ok :
  firstn 110 out = newc_block e /\ (e_ino e <= 4294967295)%Z
  /\ fst (newc_format_hex (e_uid e) NEWC_c_uid_size) = 0%Z /\ fst (newc_format_hex (e_gid e) NEWC_c_gid_size) = 0%Z
  /\ fst (newc_format_hex (e_mtime e) NEWC_c_mtime_size) = 0%Z.
Proof.
  destruct (newc_written _ _ _ _ Hw ltac:(unfold ST_WARN, ST_OK, ARCHIVE_WARN, ARCHIVE_OK; lia)) as [Hout [H _]].
  symmetry in H. unfold newc_warn in H.
  apply pick_warn_ok in H. destruct H as [C4 H]. apply pick_warn_ok in H. destruct H as [C3 H].
  apply pick_warn_ok in H. destruct H as [C2 H]. apply pick_warn_ok in H. destruct H as [C1 _].
  repeat split; try assumption.
  - apply Z.ltb_ge in C1. assumption.
  - apply negb_eqb0c. assumption.
  - apply negb_eqb0c. assumption.
  - apply negb_eqb0c. assumption.
Qed.

Theorem newc_ok_uid : cpio_atol16 (slice NEWC_c_uid_offset NEWC_c_uid_size (firstn 110 out)) = e_uid e.
Proof.
  destruct newc_warn_ok as [Hb [_ [H _]]]. rewrite Hb. rewrite newc_slice_uid.
  apply newc_field_ok_decodes; [unfold NEWC_c_uid_size; lia | assumption].
Qed.
Theorem newc_ok_gid : cpio_atol16 (slice NEWC_c_gid_offset NEWC_c_gid_size (firstn 110 out)) = e_gid e.
Proof.
  destruct newc_warn_ok as [Hb [_ [_ [H _]]]]. rewrite Hb. rewrite newc_slice_gid.
  apply newc_field_ok_decodes; [unfold NEWC_c_gid_size; lia | assumption].
Qed.
Theorem newc_ok_mtime : cpio_atol16 (slice NEWC_c_mtime_offset NEWC_c_mtime_size (firstn 110 out)) = e_mtime e.
Proof.
  destruct newc_warn_ok as [Hb [_ [_ [_ H]]]]. rewrite Hb. rewrite newc_slice_mtime.
  apply newc_field_ok_decodes; [unfold NEWC_c_mtime_size; lia | assumption].
Qed.
Theorem newc_ok_ino : (0 <= e_ino e)%Z ->
  cpio_atol16 (slice NEWC_c_ino_offset NEWC_c_ino_size (firstn 110 out)) = e_ino e.
Proof.
  intros Hino. destruct newc_warn_ok as [Hb [E _]]. rewrite Hb.
  rewrite newc_slice_ino. rewrite newc_field_decodes by (unfold NEWC_c_ino_size; lia).
  assert (Hl : Z.land (e_ino e) 4294967295 = e_ino e).
  { change 4294967295%Z with (Z.ones 32). rewrite Z.land_ones by lia. apply Z.mod_small. change (2 ^ 32)%Z with 4294967296%Z. lia. }
  rewrite Hl. change (zpow 16 NEWC_c_ino_size) with 4294967296%Z.
  replace ((0 <=? e_ino e) && (e_ino e <? 4294967296))%Z with true; [reflexivity|].
  symmetry. apply andb_true_iff. split; [apply Z.leb_le | apply Z.ltb_lt]; lia.
Qed.
End NewcOk.

(* ------------------------------------------------------------------ binary *)
Lemma bin_block_length : forall ino e, length (bin_block ino e) = 26.
Proof. intros. unfold bin_block, bin16, bin32. cbv zeta. destruct (is_dev e); reflexivity. Qed.

Section BinBlock.
Variable ino : Z.
Variable e : entry.
Lemma bin_slice_dev : le2 (slice R_bin_dev_offset R_bin_dev_size (bin_block ino e)) = (e_dev e mod 65536)%Z.
Proof. unfold bin_block. cbv zeta. destruct (is_dev e); cbn [app slice skipn firstn bin16 R_bin_dev_offset R_bin_dev_size]; apply bin16_roundtrip. Qed.
Lemma bin_slice_uid : le2 (slice R_bin_uid_offset R_bin_uid_size (bin_block ino e)) = (e_uid e mod 65536)%Z.
Proof. unfold bin_block. cbv zeta. destruct (is_dev e); cbn [app slice skipn firstn bin16 R_bin_uid_offset R_bin_uid_size]; apply bin16_roundtrip. Qed.
Lemma bin_slice_gid : le2 (slice R_bin_gid_offset R_bin_gid_size (bin_block ino e)) = (e_gid e mod 65536)%Z.
Proof. unfold bin_block. cbv zeta. destruct (is_dev e); cbn [app slice skipn firstn bin16 R_bin_gid_offset R_bin_gid_size]; apply bin16_roundtrip. Qed.
Lemma bin_slice_nlink : le2 (slice R_bin_nlink_offset R_bin_nlink_size (bin_block ino e)) = (e_nlink e mod 65536)%Z.
Proof. unfold bin_block. cbv zeta. destruct (is_dev e); cbn [app slice skipn firstn bin16 R_bin_nlink_offset R_bin_nlink_size]; apply bin16_roundtrip. Qed.
Lemma bin_slice_ino : le2 (slice R_bin_ino_offset R_bin_ino_size (bin_block ino e)) = (ino mod 65536)%Z.
Proof. unfold bin_block. cbv zeta. destruct (is_dev e); cbn [app slice skipn firstn bin16 R_bin_ino_offset R_bin_ino_size]; apply bin16_roundtrip. Qed.
Lemma bin_slice_mtime : le4 (slice R_bin_mtime_offset R_bin_mtime_size (bin_block ino e)) = (e_mtime e mod 4294967296)%Z.
Proof. unfold bin_block. cbv zeta. destruct (is_dev e); cbn [app slice skipn firstn bin16 bin32 R_bin_mtime_offset R_bin_mtime_size]; apply bin32_roundtrip. Qed.
Lemma bin_slice_namesize : le2 (slice R_bin_namesize_offset R_bin_namesize_size (bin_block ino e)) = (pathlength_of e mod 65536)%Z.
Proof. unfold bin_block. cbv zeta. destruct (is_dev e); cbn [app slice skipn firstn bin16 bin32 R_bin_namesize_offset R_bin_namesize_size]; apply bin16_roundtrip. Qed.
Lemma bin_slice_filesize : le4 (slice R_bin_filesize_offset R_bin_filesize_size (bin_block ino e))
  = ((if (0 <? length (sym_of e))%nat then lenZ (sym_of e) else body_size e) mod 4294967296)%Z.
Proof. unfold bin_block. cbv zeta. destruct (is_dev e); cbn [app slice skipn firstn bin16 bin32 R_bin_filesize_offset R_bin_filesize_size]; apply bin32_roundtrip. Qed.
End BinBlock.

(* what a written binary header looks like *)
Lemma bin_written : forall pwb st e st' ret out rem,
  bin_write_header pwb st e = (st', ret, out, rem) -> (ST_WARN <= ret)%Z ->
  exists ino, firstn 26 out = bin_block ino e /\ ret = bin_warn e /\ (lenZ (ob (e_path e)) + 1 <= 65535)%Z
              /\ (length (sym_of e) = 0 -> (body_size e <= 2147483647)%Z).
Proof.
  intros pwb st e st' ret out rem H Hret. unfold bin_write_header in H. cbv zeta in H.
  destruct (65535 <? lenZ (ob (e_path e)) + 1)%Z eqn:El; [apply tuple4_inv in H; destruct H as [_ [H2 _]]; subst ret; st_contra Hret|].
  apply Z.ltb_ge in El.
  destruct (synthesize_ino st e) as [st1 ino].
  destruct (ino <? 0)%Z; [apply tuple4_inv in H; destruct H as [_ [H2 _]]; subst ret; st_contra Hret|].
  destruct (32767 <? ino)%Z; [apply tuple4_inv in H; destruct H as [_ [H2 _]]; subst ret; st_contra Hret|].
  destruct ((Z.land (u16 (e_mode e)) IFMT =? IFSOCK)%Z || (Z.land (u16 (e_mode e)) IFMT =? IFIFO)%Z);
    [apply tuple4_inv in H; destruct H as [_ [H2 _]]; subst ret; st_contra Hret|].
  destruct (pwb && (Z.land (u16 (e_mode e)) IFMT =? IFLNK)%Z); [apply tuple4_inv in H; destruct H as [_ [H2 _]]; subst ret; st_contra Hret|].
  destruct ((0 <? length (sym_of e)) && pwb); [apply tuple4_inv in H; destruct H as [_ [H2 _]]; subst ret; st_contra Hret|].
  destruct (negb (0 <? length (sym_of e)) && pwb && (16777215 <? body_size e)%Z);
    [apply tuple4_inv in H; destruct H as [_ [H2 _]]; subst ret; st_contra Hret|].
  destruct (negb (0 <? length (sym_of e)) && (2147483647 <? body_size e)%Z) eqn:E;
    [apply tuple4_inv in H; destruct H as [_ [H2 _]]; subst ret; st_contra Hret|].
  apply tuple4_inv in H. destruct H as [_ [H2 [Hout _]]]. subst out.
  exists ino. repeat split; auto.
  - destruct (0 <? length (sym_of e)); repeat rewrite <- app_assoc; apply firstn_app_exact; apply bin_block_length.
  - intros Hs. rewrite Hs in E. cbn [Nat.ltb Nat.leb negb andb] in E. apply Z.ltb_ge in E. assumption.
Qed.

Section BinOk.
Variables (pwb : bool) (st st' : cpio_state) (e : entry) (out : list Z) (rem : Z).
Hypothesis Hw : bin_write_header pwb st e = (st', ST_OK, out, rem).

Lemma bin_warn_ok : exists ino, firstn 26 out = bin_block ino e
  /\ (e_uid e <= 65535 /\ e_gid e <= 65535 /\ e_nlink e <= 65535 /\ (is_dev e = true -> u64 (e_rdev e) <= 65535)
      /\ 0 <= e_mtime e <= 4294967295 /\ lenZ (ob (e_path e)) + 1 <= 65535)%Z.
Proof.
  destruct (bin_written _ _ _ _ _ _ _ Hw ltac:(unfold ST_WARN, ST_OK, ARCHIVE_WARN, ARCHIVE_OK; lia)) as [ino [Hout [H [Hl _]]]].
  exists ino. split; [assumption|]. symmetry in H. unfold bin_warn in H.
  apply pick_warn_ok in H. destruct H as [C5 H]. apply pick_warn_ok in H. destruct H as [C4 H].
  apply pick_warn_ok in H. destruct H as [C3 H]. apply pick_warn_ok in H. destruct H as [C2 H].
  apply pick_warn_ok in H. destruct H as [C1 _].
  apply Z.ltb_ge in C1. apply Z.ltb_ge in C2. apply Z.ltb_ge in C3.
  apply orb_false_iff in C5. destruct C5 as [C5a C5b]. apply Z.ltb_ge in C5a. apply Z.ltb_ge in C5b.
  repeat split; try assumption.
  intros Hd. rewrite Hd in C4. cbn [andb] in C4. apply Z.ltb_ge in C4. assumption.
Qed.

Theorem bin_ok_uid : (0 <= e_uid e)%Z -> le2 (slice R_bin_uid_offset R_bin_uid_size (firstn 26 out)) = e_uid e.
Proof.
  intros H0. destruct bin_warn_ok as [ino [Hb [H _]]]. rewrite Hb. rewrite bin_slice_uid. apply Z.mod_small. lia.
Qed.
Theorem bin_ok_gid : (0 <= e_gid e)%Z -> le2 (slice R_bin_gid_offset R_bin_gid_size (firstn 26 out)) = e_gid e.
Proof.
  intros H0. destruct bin_warn_ok as [ino [Hb [_ [H _]]]]. rewrite Hb. rewrite bin_slice_gid. apply Z.mod_small. lia.
Qed.
Theorem bin_ok_nlink : (0 <= e_nlink e)%Z -> le2 (slice R_bin_nlink_offset R_bin_nlink_size (firstn 26 out)) = e_nlink e.
Proof.
  intros H0. destruct bin_warn_ok as [ino [Hb [_ [_ [H _]]]]]. rewrite Hb. rewrite bin_slice_nlink. apply Z.mod_small. lia.
Qed.
Theorem bin_ok_mtime : le4 (slice R_bin_mtime_offset R_bin_mtime_size (firstn 26 out)) = e_mtime e.
Proof.
  destruct bin_warn_ok as [ino [Hb [_ [_ [_ [_ [H _]]]]]]]. rewrite Hb. rewrite bin_slice_mtime. apply Z.mod_small. lia.
Qed.
Theorem bin_ok_namesize : le2 (slice R_bin_namesize_offset R_bin_namesize_size (firstn 26 out)) = (lenZ (ob (e_path e)) + 1)%Z.
Proof.
  destruct bin_warn_ok as [ino [Hb [_ [_ [_ [_ [_ H]]]]]]]. rewrite Hb. rewrite bin_slice_namesize.
  unfold pathlength_of, s32, lenZ in *. rewrite (Z.mod_small (Z.of_nat (length (ob (e_path e))) + 2147483648)) by lia.
  rewrite Z.mod_small by lia. lia.
Qed.
End BinOk.

(* status OK of the binary writer means the file size is exact *)
Theorem bin_ok_filesize : forall pwb st e st' out rem,
  bin_write_header pwb st e = (st', ST_OK, out, rem) -> (0 <= body_size e)%Z -> (lenZ (sym_of e) < 4294967296)%Z ->
  exists ino, firstn 26 out = bin_block ino e /\
  le4 (slice R_bin_filesize_offset R_bin_filesize_size (bin_block ino e))
  = if (0 <? length (sym_of e)) then lenZ (sym_of e) else body_size e.
Proof.
  intros pwb st e st' out rem H Hb Hs.
  destruct (bin_written _ _ _ _ _ _ _ H ltac:(unfold ST_WARN, ST_OK, ARCHIVE_WARN, ARCHIVE_OK; lia)) as [ino [Hout [_ [_ Hsz]]]].
  exists ino. split; [assumption|].
  rewrite bin_slice_filesize. destruct (0 <? length (sym_of e)) eqn:El.
  - apply Z.mod_small. unfold lenZ in *. lia.
  - apply Nat.ltb_ge in El. assert (length (sym_of e) = 0) by lia. specialize (Hsz H0). apply Z.mod_small. lia.
Qed.
