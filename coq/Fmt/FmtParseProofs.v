(* C02, byte level: the reader's header parser applied to the writer's header gives the entry back. *)
From Coq Require Import List ZArith Bool Lia.
From LA Require Import Gen.Defines Gen.FmtLayout Fmt.FmtNumDefs Fmt.FmtNumProofs Fmt.FmtTarDefs Fmt.FmtBufProofs
  Fmt.FmtTarProofs Fmt.FmtCpioDefs Fmt.FmtCpioProofs Fmt.FmtParseDefs.
Import ListNotations.

(* ------------------------------------------------------------------ byte ranges and sums *)
Definition bytes_ok (l : list Z) : Prop := Forall (fun b => (0 <= b <= 255)%Z) l.

Lemma bytes_ok_app : forall a b, bytes_ok a -> bytes_ok b -> bytes_ok (a ++ b).
Proof. intros. unfold bytes_ok in *. apply Forall_app. split; assumption. Qed.

Lemma bytes_ok_firstn : forall n l, bytes_ok l -> bytes_ok (firstn n l).
Proof.
  unfold bytes_ok. induction n; intros l H; cbn [firstn]; [constructor|].
  destruct l; [constructor|]. inversion H; subst. constructor; [assumption | apply IHn; assumption].
Qed.

Lemma bytes_ok_skipn : forall n l, bytes_ok l -> bytes_ok (skipn n l).
Proof.
  unfold bytes_ok. induction n; intros l H; cbn [skipn]; [assumption|].
  destruct l; [constructor|]. inversion H; subst. apply IHn; assumption.
Qed.

Lemma bytes_ok_put : forall o bs buf, bytes_ok bs -> bytes_ok buf -> bytes_ok (put o bs buf).
Proof.
  intros. unfold put. apply bytes_ok_app; [apply bytes_ok_firstn; assumption|].
  apply bytes_ok_app; [assumption | apply bytes_ok_skipn; assumption].
Qed.

Lemma bytes_ok_apply : forall ws buf, Forall (fun w => bytes_ok (snd w)) ws -> bytes_ok buf -> bytes_ok (apply_writes ws buf).
Proof.
  induction ws as [|[o b] t IH]; intros buf HF Hb; cbn [apply_writes]; [assumption|].
  inversion HF; subst. apply IH; [assumption | apply bytes_ok_put; assumption].
Qed.

Lemma bytes_ok_slice : forall o n l, bytes_ok l -> bytes_ok (slice o n l).
Proof. intros. unfold slice. apply bytes_ok_firstn. apply bytes_ok_skipn. assumption. Qed.

Lemma fold_add_acc : forall l a, fold_left Z.add l a = (a + fold_left Z.add l 0)%Z.
Proof.
  induction l; intros a0; cbn [fold_left]; [lia|]. rewrite IHl. rewrite (IHl (0 + a)%Z). lia.
Qed.

Lemma sum_bytes_app : forall a b, sum_bytes (a ++ b) = (sum_bytes a + sum_bytes b)%Z.
Proof. intros. unfold sum_bytes. rewrite fold_left_app. rewrite fold_add_acc. reflexivity. Qed.

Lemma sum_bytes_bound : forall l, bytes_ok l -> (0 <= sum_bytes l <= 255 * Z.of_nat (length l))%Z.
Proof.
  induction l; intros H.
  - cbn. lia.
  - inversion H; subst. specialize (IHl H3). change (a :: l) with ([a] ++ l). rewrite sum_bytes_app.
    change (sum_bytes [a]) with (0 + a)%Z. rewrite app_length. cbn [length]. lia.
Qed.

Lemma split3 : forall (l : list Z) a b, a + b <= length l ->
  l = slice 0 a l ++ slice a b l ++ slice (a + b) (length l - a - b) l.
Proof.
  intros l a b H. unfold slice. cbn [skipn].
  rewrite <- (firstn_skipn a l) at 1. f_equal.
  rewrite <- (firstn_skipn b (skipn a l)) at 1. f_equal.
  rewrite skipn_skipn'. rewrite firstn_all2; [reflexivity|]. rewrite skipn_length. lia.
Qed.

Lemma forallb_Forall_bytes : forall l, forallb (fun b => (0 <=? b)%Z && (b <=? 255)%Z) l = true -> bytes_ok l.
Proof.
  intros l H. unfold bytes_ok. apply Forall_forall. intros x Hx.
  rewrite forallb_forall in H. specialize (H x Hx). apply andb_true_iff in H. destruct H as [H1 H2].
  apply Z.leb_le in H1. apply Z.leb_le in H2. lia.
Qed.

Lemma ustar_template_bytes : bytes_ok ustar_template.
Proof. apply forallb_Forall_bytes. vm_compute. reflexivity. Qed.

Lemma enc_bytes_ok : forall w v, bytes_ok (enc (digits_be 8 w v)).
Proof.
  intros. unfold bytes_ok, enc. apply Forall_forall. intros x Hx. apply in_map_iff in Hx. destruct Hx as [d [Hd Hin]].
  pose proof (digits_be_range 8 w v ltac:(lia)) as HR. rewrite Forall_forall in HR. specialize (HR d Hin). lia.
Qed.

Lemma repeat_bytes_ok : forall c n, (0 <= c <= 255)%Z -> bytes_ok (repeat c n).
Proof. intros. unfold bytes_ok. apply Forall_forall. intros x Hx. apply repeat_spec in Hx. subst. assumption. Qed.

Lemma ustar_format_octal_bytes : forall v s, bytes_ok (snd (ustar_format_octal v s)).
Proof.
  intros. unfold ustar_format_octal. destruct (v <? 0)%Z; cbn [snd]; [apply repeat_bytes_ok; unfold ch0; lia|].
  destruct (v / zpow 8 s =? 0)%Z; cbn [snd]; [apply enc_bytes_ok | apply repeat_bytes_ok; unfold ch7; lia].
Qed.

Lemma ustar_fn_strict_bytes : forall v s mx, bytes_ok (snd (ustar_format_number v s mx true)).
Proof. intros. unfold ustar_format_number. apply ustar_format_octal_bytes. Qed.

(* the strings of an entry are bytes *)
Definition entry_bytes_ok (e : entry) : Prop :=
  bytes_ok (ob (e_path e)) /\ bytes_ok (ob (e_hard e)) /\ bytes_ok (ob (e_sym e)) /\ bytes_ok (ob (e_uname e)) /\ bytes_ok (ob (e_gname e)).

Lemma linkname_bytes_ok : forall e, entry_bytes_ok e -> bytes_ok (linkname_of e).
Proof.
  intros e [_ [Hh [Hs _]]]. unfold linkname_of.
  destruct (is_some (e_hard e)); destruct (is_some (e_sym e));
    repeat match goal with |- context [if ?c then _ else _] => destruct c end; try assumption; constructor.
Qed.

Lemma ustar_name_writes_bytes : forall pp, bytes_ok pp -> Forall (fun w => bytes_ok (snd w)) (snd (ustar_name_writes pp)).
Proof.
  intros pp H. unfold ustar_name_writes.
  destruct (length pp <=? USTAR_name_size); cbn [snd]; [repeat constructor; assumption|].
  destruct (ustar_split pp); [|constructor].
  destruct (S n =? length pp); [constructor|].
  destruct (USTAR_prefix_size <? n); [constructor|]. cbn [snd].
  constructor; [apply bytes_ok_firstn; assumption|]. constructor; [apply bytes_ok_skipn; assumption | constructor].
Qed.

Lemma ustar_fields_bytes : forall e tt, entry_bytes_ok e -> (0 <= tt <= 255 \/ tt < 0)%Z ->
  Forall (fun w => bytes_ok (snd w)) (snd (ustar_fields e tt true)).
Proof.
  intros e tt He Htt. pose proof (linkname_bytes_ok e He) as Hl. destruct He as [Hp [_ [_ [Hu Hg]]]].
  unfold ustar_fields. cbv zeta. cbn [snd].
  repeat match goal with
  | |- Forall _ (_ ++ _) => apply Forall_app; split
  | |- Forall _ (wr_if _ _ _) => apply Forall_wr_if; intros _
  | |- Forall _ (_ :: _) => apply Forall_cons
  | |- Forall _ [] => apply Forall_nil
  end; cbn [snd]; try apply ustar_fn_strict_bytes; try (apply bytes_ok_firstn; assumption).
  - apply ustar_name_writes_bytes. assumption.
  - destruct (ustar_typeflag e tt) as [t|] eqn:Et; [|constructor].
    constructor; [|constructor]. cbn [snd]. unfold bytes_ok. constructor; [|constructor].
    unfold ustar_typeflag, mytartype_of in Et.
    destruct (0 <=? tt)%Z eqn:E.
    + apply Z.leb_le in E. inversion Et; subst. lia.
    + destruct (0 <? length (if is_some (e_hard e) then ob (e_hard e) else [])); cbn [Z.leb Z.compare] in Et;
        [inversion Et; subst; lia|].
      repeat match type of Et with context [if ?c then _ else _] => destruct c end; inversion Et; subst; lia.
Qed.

Lemma slice_put_same_n : forall off bs (buf : list Z) n, n = length bs -> off + n <= length buf ->
  slice off n (put off bs buf) = bs.
Proof. intros. subst n. apply slice_put_same. assumption. Qed.

(* ------------------------------------------------------------------ the checksum the writer stores verifies *)
Lemma checksum_region_spaces : forall e tt,
  slice USTAR_checksum_offset 8 (apply_writes (snd (ustar_fields e tt true)) ustar_template) = sp8.
Proof.
  intros. rewrite apply_writes_slice_other.
  - reflexivity.
  - rewrite ustar_template_length. apply ustar_fields_inb.
  - rewrite ustar_fields_shape. unfold_u. away_all.
Qed.

Lemma cstr_digit_chars : forall w v, forallb cksum_char_ok (enc (digits_be 8 w v)) = true.
Proof.
  intros. apply forallb_forall. intros x Hx. unfold enc in Hx. apply in_map_iff in Hx. destruct Hx as [d [Hd Hin]].
  pose proof (digits_be_range 8 w v ltac:(lia)) as HR. rewrite Forall_forall in HR. specialize (HR d Hin).
  unfold cksum_char_ok. subst x.
  replace ((48 <=? 48 + d) && (48 + d <=? 55))%Z with true; [apply orb_true_r|].
  symmetry. apply andb_true_iff. split; apply Z.leb_le; lia.
Qed.

Theorem ustar_checksum_verifies : forall e tt, entry_bytes_ok e -> (0 <= tt <= 255 \/ tt < 0)%Z ->
  tar_checksum_ok (snd (ustar_header e tt true)) = true.
Proof.
  intros e tt He Htt. unfold ustar_header. cbn [snd].
  set (h0 := apply_writes (snd (ustar_fields e tt true)) ustar_template).
  assert (HL : length h0 = 512) by apply ustar_pre_checksum_length.
  assert (HB : bytes_ok h0) by (apply bytes_ok_apply; [apply ustar_fields_bytes; assumption | apply ustar_template_bytes]).
  assert (Hsp : slice USTAR_checksum_offset 8 h0 = sp8) by apply checksum_region_spaces.
  (* the sum the writer stores *)
  assert (Hsum : sum_bytes h0 = (sum_bytes (slice 0 USTAR_checksum_offset h0) + 256
                               + sum_bytes (slice (USTAR_checksum_offset + 8) (512 - USTAR_checksum_offset - 8) h0))%Z).
  { rewrite (split3 h0 USTAR_checksum_offset 8) at 1 by (rewrite HL; unfold USTAR_checksum_offset; lia).
    rewrite !sum_bytes_app. rewrite Hsp. rewrite HL. change (sum_bytes sp8) with 256%Z. lia. }
  pose proof (sum_bytes_bound h0 HB) as Hbd. rewrite HL in Hbd.
  set (sm := sum_bytes h0) in *.
  assert (HS : (0 <= sm < zpow 8 6)%Z) by (change (zpow 8 6) with 262144%Z; lia).
  assert (Hfo : snd (ustar_format_octal sm 6) = enc (digits_be 8 6 sm)).
  { unfold ustar_format_octal. replace (sm <? 0)%Z with false by (symmetry; apply Z.ltb_ge; lia).
    rewrite Z.div_small by lia. reflexivity. }
  unfold tar_checksum_ustar. fold sm.
  set (h1 := put (USTAR_checksum_offset + 6) [0%Z] h0).
  assert (HL1 : length h1 = 512) by (unfold h1; rewrite put_length; cbn [length]; rewrite ?HL; unfold USTAR_checksum_offset; lia).
  set (hf := put USTAR_checksum_offset (snd (ustar_format_octal sm 6)) h1).
  assert (A1 : slice USTAR_checksum_offset 6 hf = enc (digits_be 8 6 sm)).
  { unfold hf. rewrite <- Hfo. apply slice_put_same_n.
    - rewrite ustar_format_octal_length. reflexivity.
    - rewrite HL1. unfold USTAR_checksum_offset. lia. }
  assert (A2 : slice (USTAR_checksum_offset + 6) 1 hf = [0%Z]).
  { unfold hf. rewrite slice_put_other by (rewrite ?ustar_format_octal_length, ?HL1; unfold USTAR_checksum_offset; lia).
    unfold h1. apply slice_put_same_n; [reflexivity | rewrite HL; unfold USTAR_checksum_offset; lia]. }
  assert (A3 : slice (USTAR_checksum_offset + 7) 1 hf = [32%Z]).
  { unfold hf. rewrite slice_put_other by (rewrite ?ustar_format_octal_length, ?HL1; unfold USTAR_checksum_offset; lia).
    unfold h1. rewrite slice_put_other by (cbn [length]; rewrite ?HL; unfold USTAR_checksum_offset; lia).
    rewrite <- (slice_slice 7 1 USTAR_checksum_offset 8 h0) by lia. rewrite Hsp. reflexivity. }
  assert (Hfield : slice R_tar_checksum_offset R_tar_checksum_size hf = enc (digits_be 8 6 sm) ++ [0; 32]%Z).
  { change R_tar_checksum_offset with USTAR_checksum_offset.
    change (slice USTAR_checksum_offset R_tar_checksum_size hf) with (slice USTAR_checksum_offset (6 + (1 + 1)) hf).
    rewrite slice_split. rewrite slice_split. rewrite A1, A2.
    replace (USTAR_checksum_offset + 6 + 1) with (USTAR_checksum_offset + 7) by lia. rewrite A3. reflexivity. }
  (* the bytes outside the field are those of h0 *)
  assert (Hlo : slice 0 R_tar_checksum_offset hf = slice 0 USTAR_checksum_offset h0).
  { unfold hf, h1. change R_tar_checksum_offset with USTAR_checksum_offset.
    rewrite slice_put_other by (rewrite ?ustar_format_octal_length, ?put_length; cbn [length]; rewrite ?HL; unfold USTAR_checksum_offset; lia).
    apply slice_put_other; cbn [length]; rewrite ?HL; unfold USTAR_checksum_offset; lia. }
  assert (Hhi : slice (R_tar_checksum_offset + R_tar_checksum_size) (512 - R_tar_checksum_offset - R_tar_checksum_size) hf
                = slice (USTAR_checksum_offset + 8) (512 - USTAR_checksum_offset - 8) h0).
  { unfold hf, h1. change R_tar_checksum_offset with USTAR_checksum_offset. change R_tar_checksum_size with 8.
    rewrite slice_put_other by (rewrite ?ustar_format_octal_length, ?put_length; cbn [length]; rewrite ?HL; unfold USTAR_checksum_offset; lia).
    apply slice_put_other; cbn [length]; rewrite ?HL; unfold USTAR_checksum_offset; lia. }
  unfold tar_checksum_ok. rewrite Hfield, Hlo, Hhi. apply andb_true_iff. split.
  - rewrite forallb_app. rewrite cstr_digit_chars. reflexivity.
  - apply Z.eqb_eq. rewrite <- Hsum.
    assert (Hdec : tar_atol8 (enc (digits_be 8 6 sm) ++ [0; 32]%Z) = sm).
    { apply octal_roundtrip_tar; [lia | assumption | lia | cbn; lia]. }
    unfold tar_atol. rewrite digits_be_cons in * by lia. cbn [enc map app] in *.
    assert (Hd : (0 <= (sm / zpow 8 5) mod 8 < 8)%Z) by (apply Z.mod_pos_bound; lia).
    replace (128 <=? 48 + (sm / zpow 8 5) mod 8)%Z with false by (symmetry; apply Z.leb_gt; lia).
    exact Hdec.
Qed.

(* ------------------------------------------------------------------ magic and typeflag *)
Lemma ustar_magic_slice : forall e tt,
  slice R_tar_magic_offset (R_tar_magic_size + R_tar_version_size) (snd (ustar_header e tt true)) = ustar_magic.
Proof.
  intros. change R_tar_magic_offset with 257. change (R_tar_magic_size + R_tar_version_size) with 8.
  rewrite ustar_untouched.
  - reflexivity.
  - rewrite ustar_fields_shape. unfold_u. away_all.
  - unfold USTAR_checksum_offset. lia.
Qed.

Lemma nth_slice1 : forall (l : list Z) o, o < length l -> slice o 1 l = [nth o l 0%Z].
Proof.
  intros l o H. unfold slice. revert l H. induction o; intros l H; destruct l; cbn [length] in H; try lia.
  - reflexivity.
  - cbn [skipn nth]. apply IHo. lia.
Qed.

Lemma singleton_inj : forall (a b : Z), [a] = [b] -> a = b.
Proof. intros a b H. inversion H. reflexivity. Qed.

Lemma ustar_typeflag_byte : forall e tt t, ustar_typeflag e tt = Some t ->
  nth R_tar_typeflag_offset (snd (ustar_header e tt true)) 0%Z = t.
Proof.
  intros e tt t Ht.
  assert (Hs : slice USTAR_typeflag_offset (length [t]) (snd (ustar_header e tt true)) = [t]).
  { apply (ustar_field_slice e tt USTAR_typeflag_offset [t]
             (u_strs e ++ [u_mode e; u_uid e; u_gid e; u_size e; u_mtime e]
              ++ wr_if (is_dev e) USTAR_rdevmajor_offset (u_maj e) ++ wr_if (is_dev e) USTAR_rdevminor_offset (u_min e)) []).
    - rewrite ustar_fields_shape. unfold u_tail, u_tf. rewrite Ht. repeat rewrite <- app_assoc. reflexivity.
    - constructor.
    - cbn [length]. unfold USTAR_typeflag_offset, USTAR_checksum_offset. lia. }
  cbn [length] in Hs.
  rewrite nth_slice1 in Hs by (rewrite ustar_header_length; unfold USTAR_typeflag_offset; lia).
  apply singleton_inj in Hs. exact Hs.
Qed.

(* ------------------------------------------------------------------ the header round trip *)
(* what the ustar format keeps of an entry *)
Definition ustar_view (e : entry) (t : Z) : pview :=
  let isdev := (t =? 51)%Z || (t =? 52)%Z in
  mkPv (ob (e_path e)) (linkname_of e) t (Z.land (e_mode e) 4095) (e_uid e) (e_gid e) (size_of e) (e_mtime e)
       (ob (e_uname e)) (ob (e_gname e))
       (if isdev then dev_major (e_rdev e) else 0%Z) (if isdev then dev_minor (e_rdev e) else 0%Z) 0%Z 0%Z 0%Z 0%Z.

Definition strings_no_nul (e : entry) : Prop :=
  no_nul (ob (e_path e)) /\ no_nul (linkname_of e) /\ no_nul (ob (e_uname e)) /\ no_nul (ob (e_gname e)).

Lemma typeflag_dev : forall e t, ustar_typeflag e (-1) = Some t -> ((t =? 51) || (t =? 52))%Z = true -> is_dev e = true.
Proof.
  intros e t H Ht. unfold ustar_typeflag in H. cbn [Z.leb Z.compare] in H.
  unfold is_dev.
  destruct (0 <=? mytartype_of e)%Z eqn:E.
  - unfold mytartype_of in *. destruct (0 <? length (if is_some (e_hard e) then ob (e_hard e) else [])).
    + inversion H; subst. discriminate.
    + discriminate.
  - destruct (filetype e =? IFREG)%Z; [inversion H; subst; discriminate|].
    destruct (filetype e =? IFLNK)%Z; [inversion H; subst; discriminate|].
    destruct (filetype e =? IFCHR)%Z eqn:Ec; [apply orb_true_r|].
    destruct (filetype e =? IFBLK)%Z eqn:Eb; [reflexivity|].
    destruct (filetype e =? IFDIR)%Z; [inversion H; subst; discriminate|].
    destruct (filetype e =? IFIFO)%Z; [inversion H; subst; discriminate | discriminate].
Qed.

Theorem ustar_header_roundtrip : forall e,
  fst (ustar_header e (-1) true) = 0%Z ->
  entry_bytes_ok e -> strings_no_nul e ->
  (forall i, ustar_split (ob (e_path e)) = Some i -> nth (i - 1) (ob (e_path e)) 0%Z <> slash) ->
  exists t, ustar_typeflag e (-1) = Some t /\
            ustar_parse_header (snd (ustar_header e (-1) true)) = Some (ustar_view e t).
Proof.
  intros e Hok Hb [Hn1 [Hn2 [Hn3 Hn4]]] Hds.
  pose proof (ustar_ok e (-1)%Z Hok) as F.
  destruct (ustar_typeflag e (-1)) as [t|] eqn:Et; [|pose proof (uf_type _ _ F) as X; rewrite Et in X; discriminate].
  exists t. split; [reflexivity|].
  unfold ustar_parse_header.
  rewrite ustar_checksum_verifies by (assumption || lia).
  rewrite ustar_magic_slice. change (list_eqbZ ustar_magic ustar_magic) with true. cbn [andb].
  rewrite (ustar_typeflag_byte e (-1)%Z t Et).
  rewrite (ustar_ok_pathname e (-1)%Z Hok Hn1 Hds).
  rewrite (ustar_ok_linkname e (-1)%Z Hok Hn2).
  rewrite (ustar_ok_mode e (-1)%Z Hok), (ustar_ok_uid e (-1)%Z Hok), (ustar_ok_gid e (-1)%Z Hok),
          (ustar_ok_size e (-1)%Z Hok), (ustar_ok_mtime e (-1)%Z Hok).
  rewrite (ustar_ok_uname e (-1)%Z Hok ltac:(lia) Hn3), (ustar_ok_gname e (-1)%Z Hok ltac:(lia) Hn4).
  unfold ustar_view. destruct ((t =? 51) || (t =? 52))%Z eqn:Ed.
  - pose proof (typeflag_dev e t Et Ed) as Hdev.
    rewrite (ustar_ok_rdevmajor e (-1)%Z Hok Hdev), (ustar_ok_rdevminor e (-1)%Z Hok Hdev). reflexivity.
  - reflexivity.
Qed.

(* ------------------------------------------------------------------ ustar_split_join *)
Theorem ustar_split_join : forall pp i,
  USTAR_name_size < length pp -> fst (ustar_name_writes pp) = 0%Z -> ustar_split pp = Some i ->
  firstn i pp ++ [slash] ++ skipn (S i) pp = pp
  /\ 0 < length (firstn i pp) <= USTAR_prefix_size
  /\ 0 < length (skipn (S i) pp) <= USTAR_name_size.
Proof.
  intros pp i Hlen Hok Hsp.
  destruct (ustar_name_writes_ok pp Hok) as [[Hl _] | [j [_ [Hsp' [Hj1 [Hj2 _]]]]]]; [lia|].
  rewrite Hsp in Hsp'. inversion Hsp'; subst j.
  pose proof (ustar_split_spec pp i Hlen Hsp) as [S1 [S2 [S3 S4]]].
  split; [|split].
  - rewrite <- S4. apply firstn_skipn_middle. assumption.
  - rewrite firstn_length. lia.
  - rewrite skipn_length. unfold USTAR_name_size in *. lia.
Qed.

(* ------------------------------------------------------------------ any partition of the body into write calls *)
Lemma data_chunks_total : forall chunks rem, (0 <= rem)%Z ->
  fst (data_chunks rem chunks) = Z.min rem (lenZ (concat chunks))
  /\ snd (data_chunks rem chunks) = firstn (Z.to_nat rem) (concat chunks).
Proof.
  induction chunks as [|c t IH]; intros rem Hrem.
  - cbn [data_chunks concat fst snd]. unfold lenZ. cbn [length]. rewrite firstn_nil. split; [lia | reflexivity].
  - cbn [data_chunks concat].
    set (s := if (rem <? lenZ c)%Z then rem else lenZ c).
    assert (Hs : (0 <= s <= rem)%Z /\ (s <= lenZ c)%Z).
    { unfold s, lenZ. destruct (rem <? Z.of_nat (length c))%Z eqn:E; [apply Z.ltb_lt in E | apply Z.ltb_ge in E]; lia. }
    destruct (IH (rem - s)%Z ltac:(lia)) as [IH1 IH2].
    destruct (data_chunks (rem - s) t) as [n out]. cbn [fst snd] in *. subst n out.
    unfold lenZ in *. rewrite app_length. split.
    + unfold s. destruct (rem <? Z.of_nat (length c))%Z eqn:E; [apply Z.ltb_lt in E | apply Z.ltb_ge in E]; lia.
    + rewrite firstn_app. f_equal.
      * unfold s. destruct (rem <? Z.of_nat (length c))%Z eqn:E; [reflexivity|].
        apply Z.ltb_ge in E. rewrite Nat2Z.id. rewrite firstn_all. symmetry. apply firstn_all2. lia.
      * unfold s. destruct (rem <? Z.of_nat (length c))%Z eqn:E; [apply Z.ltb_lt in E | apply Z.ltb_ge in E].
        -- replace (rem - rem)%Z with 0%Z by lia. replace (Z.to_nat rem - length c) with 0 by lia. reflexivity.
        -- f_equal. lia.
Qed.

(* the bytes of a body do not depend on how the client cut it into archive_write_data calls *)
Theorem body_chunking_irrelevant : forall c1 c2 rem, (0 <= rem)%Z -> concat c1 = concat c2 ->
  data_chunks rem c1 = data_chunks rem c2.
Proof.
  intros c1 c2 rem Hrem Heq.
  destruct (data_chunks_total c1 rem Hrem) as [A1 A2]. destruct (data_chunks_total c2 rem Hrem) as [B1 B2].
  destruct (data_chunks rem c1), (data_chunks rem c2). cbn [fst snd] in *. subst. rewrite Heq. reflexivity.
Qed.

(* ------------------------------------------------------------------ the normaliser of the ustar writer is a fixed point *)
Definition norm_ustar (e : entry) : entry := dir_slash (no_body e).

Lemma filetype_set_size : forall e s, filetype (set_size e s) = filetype e.
Proof. reflexivity. Qed.
Lemma filetype_set_path : forall e p, filetype (set_path e p) = filetype e.
Proof. reflexivity. Qed.

Lemma no_body_idem : forall e, no_body (no_body e) = no_body e.
Proof.
  intros e. unfold no_body.
  destruct (is_some (e_hard e) || is_some (e_sym e) || negb (filetype e =? IFREG)%Z) eqn:E.
  - cbn [e_hard e_sym set_size]. rewrite filetype_set_size. rewrite E. reflexivity.
  - rewrite E. reflexivity.
Qed.

Lemma last_byte_app_slash : forall p, last_byte (p ++ [slash]) = slash.
Proof. intros. apply last_byte_app1. Qed.

Lemma dir_slash_cases : forall e,
  dir_slash e = e \/
  (exists c t, (filetype e =? IFDIR)%Z = true /\ e_path e = Some (c :: t) /\ (last_byte (c :: t) =? slash)%Z = false
               /\ dir_slash e = set_path e ((c :: t) ++ [slash])).
Proof.
  intros e. unfold dir_slash.
  destruct (filetype e =? IFDIR)%Z eqn:E; [|left; reflexivity].
  destruct (e_path e) as [[|c t]|] eqn:Ep; try (left; reflexivity).
  destruct (last_byte (c :: t) =? slash)%Z eqn:El; [left; reflexivity|].
  right. exists c, t. repeat split; try assumption; reflexivity.
Qed.

Lemma dir_slash_of_slashed : forall e c t, (filetype e =? IFDIR)%Z = true ->
  dir_slash (set_path e ((c :: t) ++ [slash])) = set_path e ((c :: t) ++ [slash]).
Proof.
  intros e c t E. unfold dir_slash. rewrite filetype_set_path. rewrite E. cbn [set_path e_path].
  change ((c :: t) ++ [slash]) with (c :: (t ++ [slash])).
  replace (last_byte (c :: t ++ [slash])) with slash by (symmetry; apply (last_byte_app_slash (c :: t))).
  rewrite Z.eqb_refl. reflexivity.
Qed.

Lemma dir_slash_idem : forall e, dir_slash (dir_slash e) = dir_slash e.
Proof.
  intros e. destruct (dir_slash_cases e) as [H | [c [t [E [Ep [El H]]]]]].
  - rewrite H. exact H.
  - rewrite H. apply dir_slash_of_slashed. assumption.
Qed.

Lemma no_body_set_path : forall e p, no_body (set_path e p) = set_path (no_body e) p.
Proof.
  intros. unfold no_body. cbn [set_path e_hard e_sym]. rewrite filetype_set_path.
  destruct (is_some (e_hard e) || is_some (e_sym e) || negb (filetype e =? IFREG)%Z); reflexivity.
Qed.

Lemma filetype_no_body : forall e, filetype (no_body e) = filetype e.
Proof. intros. unfold no_body. destruct (is_some (e_hard e) || is_some (e_sym e) || negb (filetype e =? IFREG)%Z); reflexivity. Qed.
Lemma path_no_body : forall e, e_path (no_body e) = e_path e.
Proof. intros. unfold no_body. destruct (is_some (e_hard e) || is_some (e_sym e) || negb (filetype e =? IFREG)%Z); reflexivity. Qed.

Lemma no_body_dir_slash : forall e, no_body (dir_slash e) = dir_slash (no_body e).
Proof.
  intros e. destruct (dir_slash_cases e) as [H | [c [t [E [Ep [El H]]]]]].
  - rewrite H. symmetry.
    (* dir_slash leaves e alone, hence also no_body e (same type and path) *)
    unfold dir_slash in *. rewrite filetype_no_body, path_no_body.
    destruct (filetype e =? IFDIR)%Z; [|reflexivity].
    destruct (e_path e) as [[|c t]|] eqn:Ep; try reflexivity.
    destruct (last_byte (c :: t) =? slash)%Z eqn:El; [reflexivity|].
    (* then dir_slash e <> e: impossible *)
    exfalso. apply (f_equal e_path) in H. cbn [set_path e_path] in H. rewrite Ep in H.
    inversion H as [H1]. apply (f_equal (@length Z)) in H1. rewrite app_length in H1. cbn [length] in H1. lia.
  - rewrite H. rewrite no_body_set_path. unfold dir_slash. rewrite filetype_no_body, path_no_body. rewrite E, Ep, El. reflexivity.
Qed.

Theorem norm_ustar_idem : forall e, norm_ustar (norm_ustar e) = norm_ustar e.
Proof.
  intros e. unfold norm_ustar. rewrite no_body_dir_slash. rewrite no_body_idem. apply dir_slash_idem.
Qed.

(* writing the normalised entry produces exactly the bytes of the original entry: the read-back form is
   a fixed point of the writer *)
Theorem ustar_entry_norm_fixed : forall full e, ustar_entry full (norm_ustar e) = ustar_entry full e.
Proof.
  intros full e. unfold ustar_entry.
  assert (Hp : is_some (e_path (norm_ustar e)) = is_some (e_path e)).
  { unfold norm_ustar. destruct (dir_slash_cases (no_body e)) as [H | [c [t [E [Ep [El H]]]]]]; rewrite H.
    - rewrite path_no_body. reflexivity.
    - cbn [set_path e_path is_some]. rewrite path_no_body in Ep. rewrite Ep. reflexivity. }
  destruct (e_path (norm_ustar e)) eqn:E1; destruct (e_path e) eqn:E2; cbn [is_some] in Hp; try discriminate; [|reflexivity].
  fold (norm_ustar (norm_ustar e)). fold (norm_ustar e). rewrite norm_ustar_idem. reflexivity.
Qed.
