(* Entry record shared by the fmt family, byte-buffer helpers, and the tar-family header writers
   transcribed from archive_write_set_format_{ustar,v7tar,gnutar}.c (POSIX branch, default string
   conversion = none, no allocation failures). *)
From Coq Require Import List ZArith Bool.
From LA Require Import Gen.Defines Gen.FmtLayout Fmt.FmtNumDefs.
Import ListNotations.
Local Open Scope Z_scope.

Definition ST_OK : Z := ARCHIVE_OK.
Definition ST_WARN : Z := ARCHIVE_WARN.
Definition ST_FAILED : Z := ARCHIVE_FAILED.
Definition ST_FATAL : Z := ARCHIVE_FATAL.

Definition IFMT : Z := Z.of_N AE_IFMT.
Definition IFREG : Z := Z.of_N AE_IFREG.
Definition IFLNK : Z := Z.of_N AE_IFLNK.
Definition IFSOCK : Z := Z.of_N AE_IFSOCK.
Definition IFCHR : Z := Z.of_N AE_IFCHR.
Definition IFBLK : Z := Z.of_N AE_IFBLK.
Definition IFDIR : Z := Z.of_N AE_IFDIR.
Definition IFIFO : Z := Z.of_N AE_IFIFO.

Record entry := mkEntry {
  e_path : option (list Z);     (* archive_entry_pathname: None = never set *)
  e_hard : option (list Z);     (* at most one of e_hard / e_sym is Some (they share storage in C) *)
  e_sym : option (list Z);
  e_uname : option (list Z);
  e_gname : option (list Z);
  e_mode : Z;                   (* archive_entry_mode: file type and permission bits, 32-bit unsigned *)
  e_uid : Z;                    (* int64 *)
  e_gid : Z;
  e_size : option Z;            (* None = size not set (getter returns 0) *)
  e_mtime : Z;                  (* seconds, int64 *)
  e_dev : Z;                    (* uint64 *)
  e_ino : Z;                    (* int64 >= 0 (the setter clamps negatives) *)
  e_nlink : Z;                  (* unsigned int *)
  e_rdev : Z;                   (* uint64 *)
  e_body : list (list Z)        (* the buffers handed to archive_write_data, in call order *)
}.

Definition ob (o : option (list Z)) : list Z := match o with Some s => s | None => [] end.
Definition is_some {A} (o : option A) : bool := match o with Some _ => true | None => false end.
Definition size_of (e : entry) : Z := match e_size e with Some s => s | None => 0 end.
Definition filetype (e : entry) : Z := Z.land (e_mode e) IFMT.
Definition set_size (e : entry) (s : Z) : entry :=
  mkEntry (e_path e) (e_hard e) (e_sym e) (e_uname e) (e_gname e) (e_mode e) (e_uid e) (e_gid e)
          (Some s) (e_mtime e) (e_dev e) (e_ino e) (e_nlink e) (e_rdev e) (e_body e).
Definition set_path (e : entry) (p : list Z) : entry :=
  mkEntry (Some p) (e_hard e) (e_sym e) (e_uname e) (e_gname e) (e_mode e) (e_uid e) (e_gid e)
          (e_size e) (e_mtime e) (e_dev e) (e_ino e) (e_nlink e) (e_rdev e) (e_body e).

(* ---- byte buffers ---- *)
(* memcpy(buf + off, bs, |bs|) *)
Definition put (off : nat) (bs buf : list Z) : list Z :=
  firstn off buf ++ bs ++ skipn (off + length bs) buf.
Definition slice (off n : nat) (l : list Z) : list Z := firstn n (skipn off l).
Definition zeros (n : nat) : list Z := repeat 0 n.
Definition sum_bytes (l : list Z) : Z := fold_left Z.add l 0.
Definition lenZ (l : list Z) : Z := Z.of_nat (length l).

(* index of the first c in l *)
Fixpoint index_of (c : Z) (l : list Z) : option nat :=
  match l with
  | [] => None
  | x :: t => if x =? c then Some O else option_map S (index_of c t)
  end.
(* strchr(pp + start, c) as an index into pp *)
Definition strchr_from (pp : list Z) (start : nat) (c : Z) : option nat :=
  option_map (fun i => (start + i)%nat) (index_of c (skipn start pp)).
Definition last_byte (l : list Z) : Z := last l 0.

Definition slash : Z := 47.

(* 0x1ff & -(int64_t)size  and friends *)
Definition pad_to (m : Z) (n : Z) : Z := (- n) mod m.

(* A header is built as a sequence of memcpy-like writes (offset, bytes) over a template. *)
Definition wr := (nat * list Z)%type.
Fixpoint apply_writes (ws : list wr) (buf : list Z) : list Z :=
  match ws with
  | [] => buf
  | (o, b) :: t => apply_writes t (put o b buf)
  end.
Definition wr_if (c : bool) (o : nat) (b : list Z) : list wr := if c then [(o, b)] else [].

Definition pick (c : bool) (v ret : Z) : Z := if c then v else ret.

(* ---- the pathname part of the ustar writer: (0 | ARCHIVE_FAILED, writes) ---- *)
Definition ustar_split (pp : list Z) : option nat :=
  let n := length pp in
  let p0 := strchr_from pp (n - USTAR_name_size - 1) slash in
  match p0 with
  | Some O => strchr_from pp 1 slash
  | _ => p0
  end.

Definition ustar_name_writes (pp : list Z) : Z * list wr :=
  let n := length pp in
  if (n <=? USTAR_name_size)%nat then (0, [(USTAR_name_offset, pp)])
  else
    match ustar_split pp with
    | None => (ST_FAILED, [])
    | Some i =>
        if (S i =? n)%nat then (ST_FAILED, [])
        else if (USTAR_prefix_size <? i)%nat then (ST_FAILED, [])
        else (0, [(USTAR_prefix_offset, firstn i pp); (USTAR_name_offset, skipn (S i) pp)])
    end.

(* hardlink target if non-empty, else symlink target *)
Definition linkname_of (e : entry) : list Z :=
  let hl := if is_some (e_hard e) then ob (e_hard e) else [] in
  if (0 <? length hl)%nat then hl else (if is_some (e_sym e) then ob (e_sym e) else []).
Definition mytartype_of (e : entry) : Z :=
  if (0 <? length (if is_some (e_hard e) then ob (e_hard e) else []))%nat then 49 else -1.

Definition is_dev (e : entry) : bool := (filetype e =? IFBLK) || (filetype e =? IFCHR).

Definition ustar_typeflag (e : entry) (tartype : Z) : option Z :=
  let ft := filetype e in
  if 0 <=? tartype then Some tartype
  else if 0 <=? mytartype_of e then Some (mytartype_of e)
  else if ft =? IFREG then Some 48
  else if ft =? IFLNK then Some 50
  else if ft =? IFCHR then Some 51
  else if ft =? IFBLK then Some 52
  else if ft =? IFDIR then Some 53
  else if ft =? IFIFO then Some 54
  else None.

(* __archive_write_format_header_ustar(a, h, entry, tartype, strict, sconv) up to the checksum:
   (ret, writes over the template), in the order of the C statements *)
Definition ustar_fields (e : entry) (tartype : Z) (strict : bool) : Z * list wr :=
  let nm := ustar_name_writes (ob (e_path e)) in
  let ret := pick (negb (fst nm =? 0)) (fst nm) 0 in
  let lk := linkname_of e in
  let ret := pick ((USTAR_linkname_size <? length lk)%nat) ST_FAILED ret in
  let un := ob (e_uname e) in
  let ret := pick ((USTAR_uname_size <? length un)%nat && negb (tartype =? 120)) ST_FAILED ret in
  let gn := ob (e_gname e) in
  let ret := pick ((USTAR_gname_size <? length gn)%nat && negb (tartype =? 120)) ST_FAILED ret in
  let fmode := ustar_format_number (Z.land (e_mode e) 4095) USTAR_mode_size USTAR_mode_max_size strict in
  let ret := pick (negb (fst fmode =? 0)) ST_FAILED ret in
  let fuid := ustar_format_number (e_uid e) USTAR_uid_size USTAR_uid_max_size strict in
  let ret := pick (negb (fst fuid =? 0)) ST_FAILED ret in
  let fgid := ustar_format_number (e_gid e) USTAR_gid_size USTAR_gid_max_size strict in
  let ret := pick (negb (fst fgid =? 0)) ST_FAILED ret in
  let fsize := ustar_format_number (size_of e) USTAR_size_size USTAR_size_max_size strict in
  let ret := pick (negb (fst fsize =? 0)) ST_FAILED ret in
  let fmtime := ustar_format_number (e_mtime e) USTAR_mtime_size USTAR_mtime_max_size strict in
  let ret := pick (negb (fst fmtime =? 0)) ST_FAILED ret in
  let fmaj := ustar_format_number (dev_major (e_rdev e)) USTAR_rdevmajor_size USTAR_rdevmajor_max_size strict in
  let ret := pick (is_dev e && negb (fst fmaj =? 0)) ST_FAILED ret in
  let fmin := ustar_format_number (dev_minor (e_rdev e)) USTAR_rdevminor_size USTAR_rdevminor_max_size strict in
  let ret := pick (is_dev e && negb (fst fmin =? 0)) ST_FAILED ret in
  let tf := ustar_typeflag e tartype in
  let ret := pick (negb (is_some tf)) ST_FAILED ret in
  (ret,
   snd nm
   ++ wr_if (0 <? length lk)%nat USTAR_linkname_offset (firstn USTAR_linkname_size lk)
   ++ wr_if (0 <? length un)%nat USTAR_uname_offset (firstn USTAR_uname_size un)
   ++ wr_if (0 <? length gn)%nat USTAR_gname_offset (firstn USTAR_gname_size gn)
   ++ [(USTAR_mode_offset, snd fmode); (USTAR_uid_offset, snd fuid); (USTAR_gid_offset, snd fgid);
       (USTAR_size_offset, snd fsize); (USTAR_mtime_offset, snd fmtime)]
   ++ wr_if (is_dev e) USTAR_rdevmajor_offset (snd fmaj)
   ++ wr_if (is_dev e) USTAR_rdevminor_offset (snd fmin)
   ++ match tf with Some t => [(USTAR_typeflag_offset, [t])] | None => [] end).

(* checksum over the block whose checksum field still holds the template's spaces *)
Definition tar_checksum_ustar (h : list Z) : list Z :=
  put USTAR_checksum_offset (snd (ustar_format_octal (sum_bytes h) 6)) (put (USTAR_checksum_offset + 6) [0] h).

Definition ustar_header (e : entry) (tartype : Z) (strict : bool) : Z * list Z :=
  let f := ustar_fields e tartype strict in
  (fst f, tar_checksum_ustar (apply_writes (snd f) ustar_template)).

(* trailing '/' for directories (the entry is modified so the client sees it) *)
Definition dir_slash (e : entry) : entry :=
  if filetype e =? IFDIR then
    match e_path e with
    | Some p => match p with
                | [] => e
                | _ => if last_byte p =? slash then e else set_path e (p ++ [slash])
                end
    | None => e
    end
  else e.

Definition no_body (e : entry) : entry :=
  if is_some (e_hard e) || is_some (e_sym e) || negb (filetype e =? IFREG) then set_size e 0 else e.

(* One entry through header / data* / finish_entry of a tar-like writer.
   result = (header status, bytes of the header call, sum of write_data returns, bytes of data+finish,
   finish status).  full = false: the client abandons the archive after the header call. *)
Fixpoint data_chunks (remaining : Z) (chunks : list (list Z)) : Z * list Z :=
  match chunks with
  | [] => (0, [])
  | c :: t =>
      let s := if remaining <? lenZ c then remaining else lenZ c in
      let '(n, out) := data_chunks (remaining - s) t in
      (s + n, firstn (Z.to_nat s) c ++ out)
  end.

Record ewrite := mkEw { w_status : Z; w_hdr : list Z; w_datasum : Z; w_rest : list Z; w_fin : Z }.

(* body framing common to ustar / v7tar / gnutar: remaining = (uint64) size, padding 0x1ff & -size *)
Definition tar_body (size : Z) (chunks : list (list Z)) : Z * list Z :=
  let remaining := u64 size in
  let '(n, out) := data_chunks remaining chunks in
  (n, out ++ zeros (Z.to_nat (remaining - n + pad_to 512 remaining))).

Definition ustar_entry (full : bool) (e : entry) : ewrite :=
  match e_path e with
  | None => mkEw ST_FAILED [] 0 [] 0
  | Some _ =>
      let e := dir_slash (no_body e) in
      let '(ret, h) := ustar_header e (-1) true in
      if ret <? ST_WARN then mkEw ret [] 0 [] 0
      else if negb full then mkEw ret h 0 [] 0
      else let '(n, out) := tar_body (size_of e) (e_body e) in mkEw ret h n out 0
  end.

(* ------------------------------------------------------------------ v7tar *)
Definition v7tar_fields (e : entry) (strict : bool) : Z * list wr :=
  let pp := ob (e_path e) in
  let fits := if strict then (length pp <? V7TAR_name_size)%nat else (length pp <=? V7TAR_name_size)%nat in
  let ret := pick (negb fits) ST_FAILED 0 in
  let lk := linkname_of e in
  let ret := pick ((V7TAR_linkname_size <=? length lk)%nat) ST_FAILED ret in
  let fmode := ustar_format_number (Z.land (e_mode e) 4095) V7TAR_mode_size V7TAR_mode_max_size strict in
  let ret := pick (negb (fst fmode =? 0)) ST_FAILED ret in
  let fuid := ustar_format_number (e_uid e) V7TAR_uid_size V7TAR_uid_max_size strict in
  let ret := pick (negb (fst fuid =? 0)) ST_FAILED ret in
  let fgid := ustar_format_number (e_gid e) V7TAR_gid_size V7TAR_gid_max_size strict in
  let ret := pick (negb (fst fgid =? 0)) ST_FAILED ret in
  let fsize := ustar_format_number (size_of e) V7TAR_size_size V7TAR_size_max_size strict in
  let ret := pick (negb (fst fsize =? 0)) ST_FAILED ret in
  let fmtime := ustar_format_number (e_mtime e) V7TAR_mtime_size V7TAR_mtime_max_size strict in
  let ret := pick (negb (fst fmtime =? 0)) ST_FAILED ret in
  let ft := filetype e in
  let tf := if 0 <=? mytartype_of e then Some [(V7TAR_typeflag_offset, [mytartype_of e])]
            else if (ft =? IFREG) || (ft =? IFDIR) then Some []
            else if ft =? IFLNK then Some [(V7TAR_typeflag_offset, [50])]
            else None in
  let ret := pick (negb (is_some tf)) ST_FAILED ret in
  (ret,
   wr_if fits V7TAR_name_offset pp
   ++ wr_if (0 <? length lk)%nat V7TAR_linkname_offset (firstn V7TAR_linkname_size lk)
   ++ [(V7TAR_mode_offset, snd fmode); (V7TAR_uid_offset, snd fuid); (V7TAR_gid_offset, snd fgid);
       (V7TAR_size_offset, snd fsize); (V7TAR_mtime_offset, snd fmtime)]
   ++ match tf with Some w => w | None => [] end).

Definition tar_checksum_v7 (h : list Z) : list Z :=
  put (V7TAR_checksum_offset + 6) [0] (put V7TAR_checksum_offset (snd (ustar_format_octal (sum_bytes h) 6)) h).

Definition v7tar_header (e : entry) (strict : bool) : Z * list Z :=
  let f := v7tar_fields e strict in
  (fst f, tar_checksum_v7 (apply_writes (snd f) v7tar_template)).

Definition v7tar_entry (full : bool) (e : entry) : ewrite :=
  match e_path e with
  | None => mkEw ST_FAILED [] 0 [] 0
  | Some _ =>
      let e := dir_slash (no_body e) in
      let '(ret, h) := v7tar_header e true in
      if ret <? ST_WARN then mkEw ret [] 0 [] 0
      else if negb full then mkEw ret h 0 [] 0
      else let '(n, out) := tar_body (size_of e) (e_body e) in mkEw ret h n out 0
  end.

(* ------------------------------------------------------------------ gnutar *)
Definition gnutar_fields (name linkname uname gname : list Z) (e : entry) (tartype : Z) : Z * list wr :=
  let ret := pick ((GNUTAR_uname_size <? length uname)%nat) ST_WARN 0 in
  let ret := pick ((GNUTAR_gname_size <? length gname)%nat) ST_WARN ret in
  let fmode := gnutar_format_octal (Z.land (e_mode e) 4095) GNUTAR_mode_size in
  let fuid := gnutar_format_number (e_uid e) GNUTAR_uid_size GNUTAR_uid_max_size in
  let ret := pick (negb (fst fuid =? 0)) ST_FAILED ret in
  let fgid := gnutar_format_number (e_gid e) GNUTAR_gid_size GNUTAR_gid_max_size in
  let ret := pick (negb (fst fgid =? 0)) ST_FAILED ret in
  let fsize := gnutar_format_number (size_of e) GNUTAR_size_size GNUTAR_size_max_size in
  let ret := pick (negb (fst fsize =? 0)) ST_FAILED ret in
  let fmtime := gnutar_format_number (e_mtime e) GNUTAR_mtime_size GNUTAR_mtime_max_size in
  let ret := pick (negb (fst fmtime =? 0)) ST_FAILED ret in
  let fmaj := gnutar_format_octal (dev_major (e_rdev e)) GNUTAR_rdevmajor_size in
  let ret := pick (is_dev e && negb (fst fmaj =? 0)) ST_FAILED ret in
  let fmin := gnutar_format_octal (dev_minor (e_rdev e)) GNUTAR_rdevminor_size in
  let ret := pick (is_dev e && negb (fst fmin =? 0)) ST_FAILED ret in
  (ret,
   [(GNUTAR_name_offset, firstn GNUTAR_name_size name)]
   ++ wr_if (0 <? length linkname)%nat GNUTAR_linkname_offset (firstn GNUTAR_linkname_size linkname)
   ++ wr_if (0 <? length uname)%nat GNUTAR_uname_offset (firstn GNUTAR_uname_size uname)
   ++ wr_if (0 <? length gname)%nat GNUTAR_gname_offset (firstn GNUTAR_gname_size gname)
   ++ [(GNUTAR_mode_offset, snd fmode); (GNUTAR_uid_offset, snd fuid); (GNUTAR_gid_offset, snd fgid);
       (GNUTAR_size_offset, snd fsize); (GNUTAR_mtime_offset, snd fmtime)]
   ++ wr_if (is_dev e) GNUTAR_rdevmajor_offset (snd fmaj)
   ++ wr_if (is_dev e) GNUTAR_rdevminor_offset (snd fmin)
   ++ [(GNUTAR_typeflag_offset, [tartype])]).

Definition tar_checksum_gnu (h : list Z) : list Z :=
  put GNUTAR_checksum_offset (snd (gnutar_format_octal (sum_bytes h) 6)) (put (GNUTAR_checksum_offset + 6) [0] h).

(* archive_format_gnutar_header(a, h, entry, tartype) with the strings it takes from the gnutar state
   (main entry) or from the temporary entry ('K'/'L') *)
Definition gnutar_header (name linkname uname gname : list Z) (e : entry) (tartype : Z) : Z * list Z :=
  let f := gnutar_fields name linkname uname gname e tartype in
  (fst f, tar_checksum_gnu (apply_writes (snd f) gnutar_template)).

Definition longlink_name : list Z := [46; 47; 46; 47; 64; 76; 111; 110; 103; 76; 105; 110; 107].  (* "././@LongLink" *)
Definition s_root : list Z := [114; 111; 111; 116].
Definition s_wheel : list Z := [119; 104; 101; 101; 108].

Definition empty_entry : entry :=
  mkEntry None None None None None 0 0 0 None 0 0 0 0 0 [].

(* the 'K' / 'L' pseudo entry: header, the string with its NUL, padding to 512 *)
Definition gnutar_long (tartype : Z) (linkname s : list Z) : Z * list Z :=
  let len := Z.of_nat (length s) + 1 in
  let temp := set_size empty_entry len in
  let '(ret, h) := gnutar_header longlink_name linkname s_root s_wheel temp tartype in
  if ret <? ST_WARN then (ret, [])
  else (ret, h ++ s ++ [0] ++ zeros (Z.to_nat (pad_to 512 len))).

Definition gnutar_typeflag (e : entry) : option Z :=
  let ft := filetype e in
  if is_some (e_hard e) then Some 49
  else if ft =? IFREG then Some 48
  else if ft =? IFLNK then Some 50
  else if ft =? IFCHR then Some 51
  else if ft =? IFBLK then Some 52
  else if ft =? IFDIR then Some 53
  else if ft =? IFIFO then Some 54
  else None.

(* archive_write_gnutar_header.  header_first = false: the 'K'/'L' long-name records go out before the entry's type
   is looked at and its header is formatted (a refusal after that leaves them in the archive);
   header_first = true: type and header first, nothing is written for a refused entry. *)
Definition gnutar_entry_gen (header_first full : bool) (e0 : entry) : ewrite :=
  if negb (is_some (e_path e0)) then mkEw ST_FAILED [] 0 [] 0 else
  let e := dir_slash (no_body e0) in
  let name := ob (e_path e) in
  let linkname := linkname_of e in
  let uname := ob (e_uname e) in
  let gname := ob (e_gname e) in
  let klong := if (GNUTAR_linkname_size <? length linkname)%nat then gnutar_long 75 linkname linkname else (0, []) in
  let llong := if (GNUTAR_name_size <? length name)%nat then gnutar_long 76 linkname name else (0, []) in
  let body ret h pre :=
      if negb full then mkEw ret (pre ++ h) 0 [] 0
      else let '(n, out) := tar_body (size_of e) (e_body e) in mkEw ret (pre ++ h) n out 0 in
  if header_first then
    match gnutar_typeflag e with
    | None => mkEw ST_FAILED [] 0 [] 0
    | Some t =>
        let '(ret, h) := gnutar_header name linkname uname gname e t in
        if ret <? ST_WARN then mkEw ret [] 0 [] 0
        else if fst klong <? ST_WARN then mkEw (fst klong) (snd klong) 0 [] 0
        else if fst llong <? ST_WARN then mkEw (fst llong) (snd klong ++ snd llong) 0 [] 0
        else body ret h (snd klong ++ snd llong)
    end
  else
    if fst klong <? ST_WARN then mkEw (fst klong) (snd klong) 0 [] 0
    else if fst llong <? ST_WARN then mkEw (fst llong) (snd klong ++ snd llong) 0 [] 0
    else
    match gnutar_typeflag e with
    | None => mkEw ST_FAILED (snd klong ++ snd llong) 0 [] 0
    | Some t =>
        let '(ret, h) := gnutar_header name linkname uname gname e t in
        if ret <? ST_WARN then mkEw ret (snd klong ++ snd llong) 0 [] 0
        else body ret h (snd klong ++ snd llong)
    end.

Definition gnutar_entry (full : bool) (e0 : entry) : ewrite := gnutar_entry_gen GNUTAR_header_first full e0.

Definition tar_trailer : list Z := zeros 1024.

(* ------------------------------------------------------------------ reading strings back *)
(* archive_strncpy / strnlen: the bytes of a fixed-size field up to its first NUL *)
Fixpoint cstr (l : list Z) : list Z :=
  match l with
  | [] => []
  | c :: t => if c =? 0 then [] else c :: cstr t
  end.
Definition no_nul (l : list Z) : Prop := Forall (fun c => c <> 0) l.

(* header_ustar: prefix, a '/' (always, or - older shape of the code - unless the prefix already ends with one), name *)
Definition ustar_join_gen (always_slash : bool) (prefix_field name_field : list Z) : list Z :=
  match prefix_field with
  | [] => cstr name_field
  | c :: _ =>
      if c =? 0 then cstr name_field
      else let p := cstr prefix_field in
           (if always_slash || negb (last_byte p =? slash) then p ++ [slash] else p) ++ cstr name_field
  end.
Definition ustar_join : list Z -> list Z -> list Z := ustar_join_gen USTAR_join_always_slash.
