(* Reader side of the byte-level round trip (C02): header parsers of archive_read_support_format_tar.c
   (plain ustar headers: header_ustar + header_common, checksum), archive_read_support_format_cpio.c
   (header_newc, header_odc, the name / body / padding framing of read_header, read_data, skip), the
   archive loops, and the pax record writer (add_pax_attr_binary, format_int). *)
From Coq Require Import List ZArith Bool.
From LA Require Import Gen.Defines Gen.FmtLayout Fmt.FmtNumDefs Fmt.FmtTarDefs Fmt.FmtCpioDefs.
Import ListNotations.
Local Open Scope Z_scope.

(* what a reader hands back for one entry (fields a format does not carry stay 0 / []) *)
Record pview := mkPv {
  pv_path : list Z;
  pv_link : list Z;        (* hard link or symlink target *)
  pv_type : Z;             (* tar: the typeflag byte; cpio: mode & AE_IFMT *)
  pv_mode : Z;             (* tar: tar_atol(mode); cpio: full mode *)
  pv_uid : Z; pv_gid : Z; pv_size : Z; pv_mtime : Z;
  pv_uname : list Z; pv_gname : list Z;
  pv_rmaj : Z; pv_rmin : Z;    (* tar: rdevmajor / rdevminor (for '3' and '4'); newc: rdevmajor / rdevminor; odc: rdev / 0 *)
  pv_dmaj : Z; pv_dmin : Z;    (* newc: devmajor / devminor; odc: dev / 0 *)
  pv_ino : Z; pv_nlink : Z
}.

(* ------------------------------------------------------------------ ustar *)
Definition sp8 : list Z := [32; 32; 32; 32; 32; 32; 32; 32].

(* checksum(): the field must hold an octal number and equal the unsigned byte sum with the field as blanks
   (the signed-sum fallback of the C code only accepts more archives; the writer never needs it) *)
Definition cksum_char_ok (c : Z) : bool := (c =? 32) || (c =? 0) || ((48 <=? c) && (c <=? 55)).
Definition tar_checksum_ok (h : list Z) : bool :=
  forallb cksum_char_ok (slice R_tar_checksum_offset R_tar_checksum_size h)
  && (tar_atol (slice R_tar_checksum_offset R_tar_checksum_size h)
      =? sum_bytes (slice 0 R_tar_checksum_offset h) + 256
         + sum_bytes (slice (R_tar_checksum_offset + R_tar_checksum_size) (512 - R_tar_checksum_offset - R_tar_checksum_size) h)).

Definition ustar_magic : list Z := [117; 115; 116; 97; 114; 0; 48; 48].       (* "ustar\0" "00" *)
Fixpoint list_eqbZ (a b : list Z) : bool :=
  match a, b with
  | [], [] => true
  | x :: a', y :: b' => (x =? y) && list_eqbZ a' b'
  | _, _ => false
  end.

Definition ustar_parse_header (h : list Z) : option pview :=
  if tar_checksum_ok h && list_eqbZ (slice R_tar_magic_offset (R_tar_magic_size + R_tar_version_size) h) ustar_magic then
    let tf := nth R_tar_typeflag_offset h 0 in
    let isdev := (tf =? 51) || (tf =? 52) in
    Some (mkPv (ustar_join (slice R_tar_prefix_offset R_tar_prefix_size h) (slice R_tar_name_offset R_tar_name_size h))
               (cstr (slice R_tar_linkname_offset R_tar_linkname_size h))
               tf
               (tar_atol (slice R_tar_mode_offset R_tar_mode_size h))
               (tar_atol (slice R_tar_uid_offset R_tar_uid_size h))
               (tar_atol (slice R_tar_gid_offset R_tar_gid_size h))
               (tar_atol (slice R_tar_size_offset R_tar_size_size h))
               (tar_atol (slice R_tar_mtime_offset R_tar_mtime_size h))
               (cstr (slice R_tar_uname_offset R_tar_uname_size h))
               (cstr (slice R_tar_gname_offset R_tar_gname_size h))
               (if isdev then tar_atol (slice R_tar_rdevmajor_offset R_tar_rdevmajor_size h) else 0)
               (if isdev then tar_atol (slice R_tar_rdevminor_offset R_tar_rdevminor_size h) else 0)
               0 0 0 0)
  else None.

Definition all_zero (l : list Z) : bool := forallb (fun c => c =? 0) l.

(* read_header / read_data / skip over plain ustar entries: header block, size bytes of body for a regular
   file (typeflag '0'), padding to 512; a zero block ends the archive *)
Fixpoint ustar_parse_archive (fuel : nat) (data : list Z) : option (list (pview * list Z)) :=
  match fuel with
  | O => None
  | S f =>
      if (length data <? 512)%nat then Some []
      else
        let h := firstn 512 data in
        let rest := skipn 512 data in
        if all_zero h then Some []
        else match ustar_parse_header h with
             | None => None
             | Some v =>
                 let n := if pv_type v =? 48 then pv_size v else 0 in
                 if (n <? 0) || (lenZ rest <? n + pad_to 512 n) then None
                 else
                   let body := firstn (Z.to_nat n) rest in
                   match ustar_parse_archive f (skipn (Z.to_nat (n + pad_to 512 n)) rest) with
                   | None => None
                   | Some l => Some ((v, body) :: l)
                   end
             end
  end.

(* ------------------------------------------------------------------ cpio newc / odc *)
Definition newc_magic : list Z := [48; 55; 48; 55; 48; 49].
Definition odc_magic : list Z := [48; 55; 48; 55; 48; 55].

(* one entry: (view, body, rest) - the name with its NUL, name padding, body (link target for symlinks), padding *)
Definition newc_parse_entry (data : list Z) : option (pview * list Z * list Z) :=
  if (length data <? R_newc_header_size)%nat then None
  else
    let h := firstn R_newc_header_size data in
    if negb (list_eqbZ (slice R_newc_magic_offset R_newc_magic_size h) newc_magic) then None
    else
      let f o n := cpio_atol16 (slice o n h) in
      let namesize := f R_newc_namesize_offset R_newc_namesize_size in
      let filesize := f R_newc_filesize_offset R_newc_filesize_size in
      let name_pad := (2 - namesize) mod 4 in
      let r1 := skipn R_newc_header_size data in
      if (namesize <? 1) || (lenZ r1 <? namesize + name_pad + filesize + pad_to 4 filesize) then None
      else
        let name := cstr (firstn (Z.to_nat namesize) r1) in
        let r2 := skipn (Z.to_nat (namesize + name_pad)) r1 in
        let body := firstn (Z.to_nat filesize) r2 in
        let r3 := skipn (Z.to_nat (filesize + pad_to 4 filesize)) r2 in
        let mode := f R_newc_mode_offset R_newc_mode_size in
        let islnk := Z.land mode IFMT =? IFLNK in
        Some (mkPv name (if islnk then body else []) (Z.land mode IFMT) mode
                   (f R_newc_uid_offset R_newc_uid_size) (f R_newc_gid_offset R_newc_gid_size)
                   filesize (f R_newc_mtime_offset R_newc_mtime_size) [] []
                   (f R_newc_rdevmajor_offset R_newc_rdevmajor_size) (f R_newc_rdevminor_offset R_newc_rdevminor_size)
                   (f R_newc_devmajor_offset R_newc_devmajor_size) (f R_newc_devminor_offset R_newc_devminor_size)
                   (f R_newc_ino_offset R_newc_ino_size) (f R_newc_nlink_offset R_newc_nlink_size),
              (if islnk then [] else body), r3).

Definition odc_parse_entry (data : list Z) : option (pview * list Z * list Z) :=
  if (length data <? R_odc_header_size)%nat then None
  else
    let h := firstn R_odc_header_size data in
    if negb (list_eqbZ (slice R_odc_magic_offset R_odc_magic_size h) odc_magic) then None
    else
      let f o n := cpio_atol8 (slice o n h) in
      let namesize := f R_odc_namesize_offset R_odc_namesize_size in
      let filesize := f R_odc_filesize_offset R_odc_filesize_size in
      let r1 := skipn R_odc_header_size data in
      if (namesize <? 1) || (lenZ r1 <? namesize + filesize) then None
      else
        let name := cstr (firstn (Z.to_nat namesize) r1) in
        let r2 := skipn (Z.to_nat namesize) r1 in
        let body := firstn (Z.to_nat filesize) r2 in
        let r3 := skipn (Z.to_nat filesize) r2 in
        let mode := f R_odc_mode_offset R_odc_mode_size in
        let islnk := Z.land mode IFMT =? IFLNK in
        Some (mkPv name (if islnk then body else []) (Z.land mode IFMT) mode
                   (f R_odc_uid_offset R_odc_uid_size) (f R_odc_gid_offset R_odc_gid_size)
                   filesize (f R_odc_mtime_offset R_odc_mtime_size) [] []
                   (f R_odc_rdev_offset R_odc_rdev_size) 0
                   (f R_odc_dev_offset R_odc_dev_size) 0
                   (f R_odc_ino_offset R_odc_ino_size) (f R_odc_nlink_offset R_odc_nlink_size),
              (if islnk then [] else body), r3).

(* the archive loop: entries until the one named TRAILER!!! *)
Fixpoint cpio_parse_archive (parse_entry : list Z -> option (pview * list Z * list Z)) (fuel : nat) (data : list Z)
  : option (list (pview * list Z)) :=
  match fuel with
  | O => None
  | S f =>
      match parse_entry data with
      | None => None
      | Some (v, body, rest) =>
          if list_eqbZ (pv_path v) trailer_name then Some []
          else match cpio_parse_archive parse_entry f rest with
               | None => None
               | Some l => Some ((v, body) :: l)
               end
      end
  end.

(* ------------------------------------------------------------------ pax records *)
(* format_int for a non-negative value: do { *--t = '0' + ui % 10; } while (ui /= 10); *)
Fixpoint dec_digits (fuel : nat) (n : Z) (acc : list Z) : list Z :=
  match fuel with
  | O => acc
  | S f => let acc' := (48 + n mod 10) :: acc in
           if n / 10 =? 0 then acc' else dec_digits f (n / 10) acc'
  end.
Definition format_int (n : Z) : list Z := dec_digits 20 n [].

(* while (i > 0) { i = i / 10; digits++; next_ten = next_ten * 10; } *)
Fixpoint count_digits (fuel : nat) (i digits next_ten : Z) : Z * Z :=
  match fuel with
  | O => (digits, next_ten)
  | S f => if 0 <? i then count_digits f (i / 10) (digits + 1) (next_ten * 10) else (digits, next_ten)
  end.

(* add_pax_attr_binary(as, key, value, value_len): "<len> <key>=<value>\n", len counting itself.
   (C computes next_ten in an int: defined for len < 10^9) *)
Definition pax_record_total (key value : list Z) : Z :=
  let len := 1 + lenZ key + 1 + lenZ value + 1 in
  let '(digits, next_ten) := count_digits 12 len 0 1 in
  let digits := if next_ten <=? len + digits then digits + 1 else digits in
  len + digits.
Definition pax_record (key value : list Z) : list Z :=
  format_int (pax_record_total key value) ++ [32] ++ key ++ [61] ++ value ++ [10].

(* the reader's view of a record: decimal length up to the blank *)
Fixpoint atoi_dec (l : list Z) (acc : Z) : Z :=
  match l with
  | c :: t => if (48 <=? c) && (c <=? 57) then atoi_dec t (acc * 10 + (c - 48)) else acc
  | [] => acc
  end.
