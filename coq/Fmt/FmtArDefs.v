(* ar writer: archive_write_set_format_ar.c (BSD and SVR4/GNU variants), with its persistent state. *)
From Coq Require Import List ZArith Bool.
From LA Require Import Gen.Defines Gen.FmtLayout Fmt.FmtNumDefs Fmt.FmtTarDefs.
Import ListNotations.
Local Open Scope Z_scope.

Record ar_state := mkAr {
  ar_remaining : Z;          (* entry_bytes_remaining (uint64) *)
  ar_padding : Z;            (* entry_padding: NOT reset by finish_entry *)
  ar_is_strtab : bool;
  ar_has_strtab : bool;
  ar_global : bool;          (* wrote_global_header *)
  ar_strtab : list Z
}.
Definition ar_init : ar_state := mkAr 0 0 false false false [].

Definition ar_magic : list Z := [33; 60; 97; 114; 99; 104; 62; 10].      (* "!<arch>\n" *)

Fixpoint list_eqb (a b : list Z) : bool :=
  match a, b with
  | [], [] => true
  | x :: a', y :: b' => (x =? y) && list_eqb a' b'
  | _, _ => false
  end.

Fixpoint is_prefix (p l : list Z) : bool :=
  match p, l with
  | [], _ => true
  | x :: p', y :: l' => (x =? y) && is_prefix p' l'
  | _ :: _, [] => false
  end.

(* strstr(hay, needle) as an offset *)
Fixpoint find_sub (needle hay : list Z) (k : nat) : option nat :=
  if is_prefix needle hay then Some k
  else match hay with
       | [] => None
       | _ :: t => find_sub needle t (S k)
       end.

(* ar_basename: None for a trailing '/'; otherwise the part after the last '/' *)
Fixpoint after_last_slash (l acc : list Z) : list Z :=
  match l with
  | [] => acc
  | c :: t => if c =? slash then after_last_slash t t else after_last_slash t acc
  end.
Definition ar_basename (path : list Z) : option (list Z) :=
  if last_byte path =? slash then None else Some (after_last_slash path path).

Definition has_space (l : list Z) : bool := existsb (fun c => c =? 32) l.

Definition s_slash : list Z := [47].
Definition s_sym64 : list Z := [47; 83; 89; 77; 54; 52; 47].               (* "/SYM64/" *)
Definition s_symdef : list Z := [95; 95; 46; 83; 89; 77; 68; 69; 70].      (* "__.SYMDEF" *)
Definition s_strtab : list Z := [47; 47].                                  (* "//" *)

(* archive_write_ar_header: (state, status, bytes written by the call).
   gnu = ARCHIVE_FORMAT_AR_GNU, otherwise BSD. *)
Definition ar_header (gnu : bool) (st : ar_state) (e : entry) : ar_state * Z * list Z :=
  (* is_strtab, entry_bytes_remaining and entry_padding are cleared before anything can be refused *)
  let st := mkAr 0 0 false (ar_has_strtab st) (ar_global st) (ar_strtab st) in
  let size := size_of e in
  match e_path e with
  | None => (st, ST_WARN, [])
  | Some [] => (st, ST_WARN, [])
  | Some pathname =>
    let pre := if ar_global st then [] else ar_magic in
    let st := mkAr (ar_remaining st) (ar_padding st) false (ar_has_strtab st) true (ar_strtab st) in
    let buff := put AR_fmag_offset [96; 10] (repeat 32 60%nat) in
    (* the tail of the function from the 'stat:' label *)
    let stat_part (buff : list Z) (filename : option (list Z)) (size : Z) (append_fn : bool) :=
      let '(r, b) := ar_format_decimal (e_mtime e) AR_date_size in
      let buff := put AR_date_offset b buff in
      if negb (r =? 0) then (st, ST_WARN, pre) else
      let '(r, b) := ar_format_decimal (e_uid e) AR_uid_size in
      let buff := put AR_uid_offset b buff in
      if negb (r =? 0) then (st, ST_WARN, pre) else
      let '(r, b) := ar_format_decimal (e_gid e) AR_gid_size in
      let buff := put AR_gid_offset b buff in
      if negb (r =? 0) then (st, ST_WARN, pre) else
      let '(r, b) := ar_format_octal (e_mode e) AR_mode_size in
      let buff := put AR_mode_offset b buff in
      if negb (r =? 0) then (st, ST_WARN, pre) else
      if is_some filename && negb (filetype e =? IFREG) then (st, ST_WARN, pre) else
      let '(r, b) := ar_format_decimal size AR_size_size in
      let buff := put AR_size_offset b buff in
      if negb (r =? 0) then (st, ST_WARN, pre) else
      let fn := if append_fn then ob filename else [] in
      let rem := u64 size in
      (mkAr (u64 (rem - lenZ fn)) (rem mod 2) (ar_is_strtab st) (ar_has_strtab st) true (ar_strtab st),
       ST_OK, pre ++ buff ++ fn) in
    if list_eqb pathname s_slash then stat_part (put AR_name_offset s_slash buff) None size false
    else if list_eqb pathname s_sym64 then stat_part (put AR_name_offset s_sym64 buff) None size false
    else if list_eqb pathname s_symdef then stat_part (put AR_name_offset s_symdef buff) None size false
    else if list_eqb pathname s_strtab then
      let buff := put AR_name_offset s_strtab buff in
      let '(r, b) := ar_format_decimal size AR_size_size in
      let buff := put AR_size_offset b buff in
      let st1 := mkAr (ar_remaining st) (ar_padding st) true (ar_has_strtab st) true (ar_strtab st) in
      if negb (r =? 0) then (st1, ST_WARN, pre)
      else let rem := u64 size in
           (mkAr rem (rem mod 2) true (ar_has_strtab st) true (ar_strtab st), ST_OK, pre ++ buff)
    else
      match ar_basename pathname with
      | None => (st, ST_WARN, pre)
      | Some filename =>
        if gnu then
          if (length filename <=? 15)%nat then
            stat_part (put (AR_name_offset + length filename) [slash] (put AR_name_offset filename buff))
                      (Some filename) size false
          else if negb (ar_has_strtab st) then (st, ST_WARN, pre)
          else match find_sub (filename ++ [slash; 10]) (ar_strtab st) O with
               | None => (st, ST_WARN, pre)
               | Some off =>
                   let buff := put AR_name_offset [slash] buff in
                   let '(r, b) := ar_format_decimal (Z.of_nat off) (AR_name_size - 1) in
                   let buff := put (AR_name_offset + 1) b buff in
                   if negb (r =? 0) then (st, ST_WARN, pre)
                   else stat_part buff (Some filename) size false
               end
        else
          if (length filename <=? 16)%nat && negb (has_space filename) then
            stat_part (put (AR_name_offset + length filename) [32] (put AR_name_offset filename buff))
                      (Some filename) size false
          else
            let buff := put AR_name_offset [35; 49; 47] buff in
            let '(r, b) := ar_format_decimal (lenZ filename) (AR_name_size - 3) in
            let buff := put (AR_name_offset + 3) b buff in
            if negb (r =? 0) then (st, ST_WARN, pre)
            else stat_part buff (Some filename) (s64 (size + lenZ filename)) true
      end
  end.

(* archive_write_ar_data, one call: (state, return value, bytes) *)
Definition ar_data (st : ar_state) (c : list Z) : ar_state * Z * list Z :=
  let s := if ar_remaining st <? lenZ c then ar_remaining st else lenZ c in
  let buf := firstn (Z.to_nat s) c in
  if ar_is_strtab st && ar_has_strtab st then (st, ST_WARN, [])
  else
    let st := if ar_is_strtab st
              then mkAr (ar_remaining st) (ar_padding st) true true (ar_global st) buf
              else st in
    (mkAr (ar_remaining st - s) (ar_padding st) (ar_is_strtab st) (ar_has_strtab st) (ar_global st) (ar_strtab st),
     s, buf).

(* the harness loop: stop at the first call that returns <= 0 *)
Fixpoint ar_data_all (st : ar_state) (chunks : list (list Z)) : ar_state * Z * list Z :=
  match chunks with
  | [] => (st, 0, [])
  | c :: t =>
      let '(st1, r, out) := ar_data st c in
      if r <? 0 then (st1, r, out)
      else if r =? 0 then (st1, 0, out)
      else let '(st2, r2, out2) := ar_data_all st1 t in
           (st2, if r2 <? 0 then r2 else r + r2, out ++ out2)
  end.

Definition ar_finish (st : ar_state) : Z * list Z :=
  if negb (ar_remaining st =? 0) then (ST_WARN, [])
  else if ar_padding st =? 0 then (ST_OK, [])
  else if negb (ar_padding st =? 1) then (ST_WARN, [])
  else (ST_OK, [10]).

Definition ar_close (st : ar_state) : Z * list Z :=
  if ar_global st then (ST_OK, []) else (ST_OK, ar_magic).
