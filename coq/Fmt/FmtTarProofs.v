(* tar-family header writers: which bytes end up in which field, and what a header status of 0 implies. *)
From Coq Require Import List ZArith Bool Lia.
From LA Require Import Gen.Defines Gen.FmtLayout Fmt.FmtNumDefs Fmt.FmtNumProofs Fmt.FmtTarDefs Fmt.FmtBufProofs.
Import ListNotations.

(* ------------------------------------------------------------------ status chains *)
Lemma pick_zero : forall c v ret, v <> 0%Z -> pick c v ret = 0%Z -> c = false /\ ret = 0%Z.
Proof. intros c v ret Hv H. unfold pick in H. destruct c; [contradiction | auto]. Qed.

Lemma pick_first_zero : forall r, pick (negb (r =? 0)%Z) r 0%Z = 0%Z -> r = 0%Z.
Proof.
  intros r H. unfold pick in H. destruct (r =? 0)%Z eqn:E; cbn [negb] in H.
  - apply Z.eqb_eq. assumption.
  - assumption.
Qed.

Lemma ST_FAILED_nz : ST_FAILED <> 0%Z.
Proof. unfold ST_FAILED, ARCHIVE_FAILED. lia. Qed.

Lemma negb_eqb0 : forall r, negb (r =? 0)%Z = false -> r = 0%Z.
Proof. intros r H. apply negb_false_iff in H. apply Z.eqb_eq. assumption. Qed.

(* ------------------------------------------------------------------ strchr *)
Lemma index_of_spec : forall c l k, index_of c l = Some k -> k < length l /\ nth k l 0%Z = c.
Proof.
  induction l as [|x t IH]; intros k H; cbn [index_of] in H; [discriminate|].
  destruct (x =? c)%Z eqn:E.
  - inversion H; subst. apply Z.eqb_eq in E. cbn. split; [lia | assumption].
  - destruct (index_of c t) as [j|]; cbn [option_map] in H; [|discriminate].
    inversion H; subst. destruct (IH j eq_refl) as [H1 H2]. cbn [length nth]. split; [lia | assumption].
Qed.

Lemma nth_skipn' : forall start j (l : list Z), nth j (skipn start l) 0%Z = nth (start + j) l 0%Z.
Proof.
  induction start; intros j l; cbn [skipn plus]; [reflexivity|].
  destruct l; [destruct j; reflexivity | cbn [nth]; apply IHstart].
Qed.

Lemma strchr_from_spec : forall pp start c i, strchr_from pp start c = Some i ->
  start <= i /\ i < length pp /\ nth i pp 0%Z = c.
Proof.
  intros pp start c i H. unfold strchr_from in H.
  destruct (index_of c (skipn start pp)) as [j|] eqn:E; cbn [option_map] in H; [|discriminate].
  inversion H; subst. apply index_of_spec in E. destruct E as [E1 E2].
  rewrite skipn_length in E1. split; [lia|]. split; [lia|].
  rewrite <- E2. rewrite nth_skipn'. reflexivity.
Qed.

Lemma ustar_split_spec : forall pp i, USTAR_name_size < length pp -> ustar_split pp = Some i ->
  length pp - USTAR_name_size - 1 <= i /\ 0 < i /\ i < length pp /\ nth i pp 0%Z = slash.
Proof.
  intros pp i Hn H. unfold ustar_split in H.
  destruct (strchr_from pp (length pp - USTAR_name_size - 1) slash) as [j|] eqn:E; [|discriminate].
  pose proof (strchr_from_spec _ _ _ _ E) as [A1 [A2 A3]].
  destruct j as [|j].
  - pose proof (strchr_from_spec _ _ _ _ H) as [B1 [B2 B3]]. repeat split; try assumption; lia.
  - inversion H; subst. repeat split; try assumption; lia.
Qed.

(* the pathname writes stay inside name[0,100) and prefix[345,500) *)
Definition in_name_regions (w : wr) : Prop :=
  fst w + length (snd w) <= USTAR_name_offset + USTAR_name_size
  \/ (USTAR_prefix_offset <= fst w /\ fst w + length (snd w) <= USTAR_prefix_offset + USTAR_prefix_size).

Lemma ustar_name_writes_regions : forall pp, Forall in_name_regions (snd (ustar_name_writes pp)).
Proof.
  intros pp. unfold ustar_name_writes.
  destruct (length pp <=? USTAR_name_size) eqn:E.
  - apply Nat.leb_le in E. cbn [snd]. constructor; [|constructor]. left. cbn [fst snd]. unfold USTAR_name_offset. lia.
  - apply Nat.leb_gt in E.
    destruct (ustar_split pp) as [i|] eqn:Es; [|constructor].
    destruct (S i =? length pp) eqn:E2; [constructor|].
    destruct (USTAR_prefix_size <? i) eqn:E3; [constructor|].
    apply Nat.ltb_ge in E3. apply ustar_split_spec in Es; [|assumption]. destruct Es as [S1 [S2 [S3 S4]]].
    cbn [snd]. constructor; [|constructor; [|constructor]].
    + right. cbn [fst snd]. rewrite firstn_length. lia.
    + left. cbn [fst snd]. rewrite skipn_length. unfold USTAR_name_offset, USTAR_name_size in *. lia.
Qed.

Lemma in_name_regions_inb : forall w, in_name_regions w -> inb 512 w.
Proof.
  intros w [H|[H1 H2]]; unfold inb; unfold USTAR_name_offset, USTAR_name_size, USTAR_prefix_offset, USTAR_prefix_size in *; lia.
Qed.

Lemma in_name_regions_away : forall w o n, in_name_regions w ->
  USTAR_name_offset + USTAR_name_size <= o -> o + n <= USTAR_prefix_offset -> away o n w.
Proof.
  intros w o n [H|[H1 H2]] Ho Hn; unfold away; lia.
Qed.

(* ------------------------------------------------------------------ strict ustar: lengths and the status *)
Lemma ustar_fn_strict_length : forall v s mx, length (snd (ustar_format_number v s mx true)) = s.
Proof. intros. unfold ustar_format_number. apply ustar_format_octal_length. Qed.

Lemma ustar_template_length : length ustar_template = 512.
Proof. reflexivity. Qed.

Ltac leaf :=
  unfold inb, away; cbn [fst snd length];
  rewrite ?ustar_fn_strict_length, ?ustar_format_octal_length, ?firstn_length;
  cbn [length];
  unfold USTAR_name_offset, USTAR_name_size, USTAR_mode_offset, USTAR_mode_size, USTAR_uid_offset, USTAR_uid_size,
    USTAR_gid_offset, USTAR_gid_size, USTAR_size_offset, USTAR_size_size, USTAR_mtime_offset, USTAR_mtime_size,
    USTAR_checksum_offset, USTAR_checksum_size, USTAR_typeflag_offset, USTAR_linkname_offset, USTAR_linkname_size,
    USTAR_uname_offset, USTAR_uname_size, USTAR_gname_offset, USTAR_gname_size, USTAR_rdevmajor_offset,
    USTAR_rdevmajor_size, USTAR_rdevminor_offset, USTAR_rdevminor_size, USTAR_prefix_offset, USTAR_prefix_size in *;
  lia.

Ltac split_forall :=
  repeat match goal with
  | |- Forall _ (_ ++ _) => apply Forall_app; split
  | |- Forall _ (wr_if _ _ _) => apply Forall_wr_if; intros _
  | |- Forall _ (_ :: _) => constructor
  | |- Forall _ [] => constructor
  | |- Forall _ (match ?x with _ => _ end) => destruct x
  end.

Lemma ustar_fields_inb : forall e tt, Forall (inb 512) (snd (ustar_fields e tt true)).
Proof.
  intros. unfold ustar_fields. cbv zeta. cbn [snd]. split_forall; try leaf.
  eapply Forall_impl; [|apply ustar_name_writes_regions]. apply in_name_regions_inb.
Qed.

Lemma ustar_pre_checksum_length : forall e tt,
  length (apply_writes (snd (ustar_fields e tt true)) ustar_template) = 512.
Proof.
  intros. rewrite apply_writes_length; [reflexivity|]. rewrite ustar_template_length. apply ustar_fields_inb.
Qed.

Theorem ustar_header_length : forall e tt, length (snd (ustar_header e tt true)) = 512.
Proof.
  intros. unfold ustar_header, tar_checksum_ustar. cbn [snd].
  pose proof (ustar_pre_checksum_length e tt) as HL.
  rewrite put_length; rewrite put_length; rewrite ?ustar_format_octal_length; cbn [length]; rewrite ?HL;
    unfold USTAR_checksum_offset; try lia.
Qed.

(* the two checksum writes do not touch any other field *)
Lemma checksum_slice_other : forall h o n, length h = 512 ->
  (o + n <= USTAR_checksum_offset \/ USTAR_checksum_offset + 7 <= o) ->
  slice o n (tar_checksum_ustar h) = slice o n h.
Proof.
  intros h o n HL Ho. unfold tar_checksum_ustar.
  rewrite slice_put_other.
  - apply slice_put_other; cbn [length]; unfold USTAR_checksum_offset in *; lia.
  - rewrite put_length; rewrite ?ustar_format_octal_length; cbn [length]; unfold USTAR_checksum_offset in *; lia.
  - rewrite ustar_format_octal_length. unfold USTAR_checksum_offset in *. lia.
Qed.

(* what status 0 says about the numeric fields and the strings *)
Record ustar_ok_facts (e : entry) (tt : Z) : Prop := {
  uf_name : fst (ustar_name_writes (ob (e_path e))) = 0%Z;
  uf_link : length (linkname_of e) <= USTAR_linkname_size;
  uf_uname : tt <> 120%Z -> length (ob (e_uname e)) <= USTAR_uname_size;
  uf_gname : tt <> 120%Z -> length (ob (e_gname e)) <= USTAR_gname_size;
  uf_mode : fst (ustar_format_number (Z.land (e_mode e) 4095) USTAR_mode_size USTAR_mode_max_size true) = 0%Z;
  uf_uid : fst (ustar_format_number (e_uid e) USTAR_uid_size USTAR_uid_max_size true) = 0%Z;
  uf_gid : fst (ustar_format_number (e_gid e) USTAR_gid_size USTAR_gid_max_size true) = 0%Z;
  uf_size : fst (ustar_format_number (size_of e) USTAR_size_size USTAR_size_max_size true) = 0%Z;
  uf_mtime : fst (ustar_format_number (e_mtime e) USTAR_mtime_size USTAR_mtime_max_size true) = 0%Z;
  uf_maj : is_dev e = true ->
           fst (ustar_format_number (dev_major (e_rdev e)) USTAR_rdevmajor_size USTAR_rdevmajor_max_size true) = 0%Z;
  uf_min : is_dev e = true ->
           fst (ustar_format_number (dev_minor (e_rdev e)) USTAR_rdevminor_size USTAR_rdevminor_max_size true) = 0%Z;
  uf_type : is_some (ustar_typeflag e tt) = true
}.

Lemma andb_negb_false_imp : forall a r, a && negb (r =? 0)%Z = false -> a = true -> r = 0%Z.
Proof. intros a r H Ha. subst a. cbn [andb] in H. apply negb_eqb0. assumption. Qed.

Lemma ustar_ok : forall e tt, fst (ustar_fields e tt true) = 0%Z -> ustar_ok_facts e tt.
Proof.
  intros e tt H. unfold ustar_fields in H. cbv zeta in H. cbn [fst] in H.
  repeat match type of H with
  | pick _ ST_FAILED _ = 0%Z => apply (pick_zero _ _ _ ST_FAILED_nz) in H; let C := fresh "C" in destruct H as [C H]
  end.
  apply pick_first_zero in H.
  constructor; try assumption; try (apply negb_eqb0; assumption).
  - apply Nat.ltb_ge. assumption.
  - intros Ht.
    match goal with Hc : (USTAR_uname_size <? _) && _ = false |- _ =>
      apply andb_false_iff in Hc; destruct Hc as [Hc|Hc]; [apply Nat.ltb_ge; assumption|];
      apply negb_false_iff in Hc; apply Z.eqb_eq in Hc; contradiction end.
  - intros Ht.
    match goal with Hc : (USTAR_gname_size <? _) && _ = false |- _ =>
      apply andb_false_iff in Hc; destruct Hc as [Hc|Hc]; [apply Nat.ltb_ge; assumption|];
      apply negb_false_iff in Hc; apply Z.eqb_eq in Hc; contradiction end.
  - intros Hd. eapply andb_negb_false_imp; eassumption.
  - intros Hd. eapply andb_negb_false_imp; eassumption.
  - apply negb_false_iff. assumption.
Qed.

(* ------------------------------------------------------------------ fields of the finished ustar header *)
Lemma ustar_field_slice : forall e tt o bs ws1 ws2,
  snd (ustar_fields e tt true) = ws1 ++ (o, bs) :: ws2 ->
  Forall (away o (length bs)) ws2 ->
  (o + length bs <= USTAR_checksum_offset \/ USTAR_checksum_offset + 7 <= o) ->
  slice o (length bs) (snd (ustar_header e tt true)) = bs.
Proof.
  intros e tt o bs ws1 ws2 Heq Haway Hck. unfold ustar_header. cbn [snd].
  rewrite checksum_slice_other; [| apply ustar_pre_checksum_length | assumption].
  rewrite Heq. apply apply_writes_field; [|assumption].
  rewrite <- Heq. rewrite ustar_template_length. apply ustar_fields_inb.
Qed.

Lemma ustar_untouched : forall e tt o n,
  Forall (away o n) (snd (ustar_fields e tt true)) ->
  (o + n <= USTAR_checksum_offset \/ USTAR_checksum_offset + 7 <= o) ->
  slice o n (snd (ustar_header e tt true)) = slice o n ustar_template.
Proof.
  intros e tt o n Haway Hck. unfold ustar_header. cbn [snd].
  rewrite checksum_slice_other; [| apply ustar_pre_checksum_length | assumption].
  apply apply_writes_slice_other; [|assumption].
  rewrite ustar_template_length. apply ustar_fields_inb.
Qed.

Ltac name_away :=
  eapply Forall_impl; [|apply ustar_name_writes_regions];
  let w := fresh "w" in let Hw := fresh "Hw" in
  intros w Hw; apply in_name_regions_away; [exact Hw | leaf | leaf].

Ltac away_all := split_forall; try leaf; try name_away.

Lemma stops_sp_nul : stops 8 [32; 0]%Z.
Proof. cbn. lia. Qed.
Lemma stops_sp : stops 8 [32]%Z.
Proof. cbn. lia. Qed.

(* the write list of the strict ustar header, in named pieces *)
Definition u_strs (e : entry) : list wr :=
  snd (ustar_name_writes (ob (e_path e)))
  ++ wr_if (0 <? length (linkname_of e)) USTAR_linkname_offset (firstn USTAR_linkname_size (linkname_of e))
  ++ wr_if (0 <? length (ob (e_uname e))) USTAR_uname_offset (firstn USTAR_uname_size (ob (e_uname e)))
  ++ wr_if (0 <? length (ob (e_gname e))) USTAR_gname_offset (firstn USTAR_gname_size (ob (e_gname e))).
Definition u_mode (e : entry) : wr :=
  (USTAR_mode_offset, snd (ustar_format_number (Z.land (e_mode e) 4095) USTAR_mode_size USTAR_mode_max_size true)).
Definition u_uid (e : entry) : wr :=
  (USTAR_uid_offset, snd (ustar_format_number (e_uid e) USTAR_uid_size USTAR_uid_max_size true)).
Definition u_gid (e : entry) : wr :=
  (USTAR_gid_offset, snd (ustar_format_number (e_gid e) USTAR_gid_size USTAR_gid_max_size true)).
Definition u_size (e : entry) : wr :=
  (USTAR_size_offset, snd (ustar_format_number (size_of e) USTAR_size_size USTAR_size_max_size true)).
Definition u_mtime (e : entry) : wr :=
  (USTAR_mtime_offset, snd (ustar_format_number (e_mtime e) USTAR_mtime_size USTAR_mtime_max_size true)).
Definition u_maj (e : entry) : list Z :=
  snd (ustar_format_number (dev_major (e_rdev e)) USTAR_rdevmajor_size USTAR_rdevmajor_max_size true).
Definition u_min (e : entry) : list Z :=
  snd (ustar_format_number (dev_minor (e_rdev e)) USTAR_rdevminor_size USTAR_rdevminor_max_size true).
Definition u_tf (e : entry) (tt : Z) : list wr :=
  match ustar_typeflag e tt with Some t => [(USTAR_typeflag_offset, [t])] | None => [] end.
Definition u_tail (e : entry) (tt : Z) : list wr :=
  wr_if (is_dev e) USTAR_rdevmajor_offset (u_maj e) ++ wr_if (is_dev e) USTAR_rdevminor_offset (u_min e) ++ u_tf e tt.

Lemma ustar_fields_shape : forall e tt,
  snd (ustar_fields e tt true) = u_strs e ++ [u_mode e; u_uid e; u_gid e; u_size e; u_mtime e] ++ u_tail e tt.
Proof.
  intros. unfold ustar_fields, u_strs, u_tail, u_tf, u_maj, u_min, u_mode, u_uid, u_gid, u_size, u_mtime.
  cbv zeta. cbn [snd]. repeat rewrite <- app_assoc. reflexivity.
Qed.

Ltac unfold_u := unfold u_strs, u_tail, u_tf, u_maj, u_min, u_mode, u_uid, u_gid, u_size, u_mtime in *.

(* a 6-digit field read through the reader's 8-byte window, an 11-digit one through 12 bytes *)
Lemma ustar_num6 : forall e tt o v ws1 ws2,
  snd (ustar_fields e tt true) = ws1 ++ (o, snd (ustar_format_number v 6 8 true)) :: ws2 ->
  Forall (away o 6) ws2 -> Forall (away (o + 6) 2) (snd (ustar_fields e tt true)) ->
  (o + 8 <= USTAR_checksum_offset \/ USTAR_checksum_offset + 7 <= o) ->
  slice (o + 6) 2 ustar_template = [32; 0]%Z ->
  fst (ustar_format_number v 6 8 true) = 0%Z ->
  tar_atol (slice o 8 (snd (ustar_header e tt true))) = v.
Proof.
  intros e tt o v ws1 ws2 Heq Ha1 Ha2 Hck Htmpl Hok.
  change 8 with (6 + 2). rewrite slice_split.
  pose proof (ustar_fn_strict_length v 6 8) as HL.
  rewrite <- HL at 1. rewrite (ustar_field_slice e tt o _ ws1 ws2 Heq); [| rewrite HL; assumption | rewrite HL; lia].
  rewrite ustar_untouched; [| assumption | lia]. rewrite Htmpl.
  apply ustar_strict_exact; [lia | apply stops_sp_nul | assumption].
Qed.

Lemma ustar_num11 : forall e tt o v mx ws1 ws2,
  snd (ustar_fields e tt true) = ws1 ++ (o, snd (ustar_format_number v 11 mx true)) :: ws2 ->
  Forall (away o 11) ws2 -> Forall (away (o + 11) 1) (snd (ustar_fields e tt true)) ->
  (o + 12 <= USTAR_checksum_offset \/ USTAR_checksum_offset + 7 <= o) ->
  slice (o + 11) 1 ustar_template = [32]%Z ->
  fst (ustar_format_number v 11 mx true) = 0%Z ->
  tar_atol (slice o 12 (snd (ustar_header e tt true))) = v.
Proof.
  intros e tt o v mx ws1 ws2 Heq Ha1 Ha2 Hck Htmpl Hok.
  change 12 with (11 + 1). rewrite slice_split.
  pose proof (ustar_fn_strict_length v 11 mx) as HL.
  rewrite <- HL at 1. rewrite (ustar_field_slice e tt o _ ws1 ws2 Heq); [| rewrite HL; assumption | rewrite HL; lia].
  rewrite ustar_untouched; [| assumption | lia]. rewrite Htmpl.
  apply ustar_strict_exact; [lia | apply stops_sp | assumption].
Qed.

Ltac all_away e tt := rewrite (ustar_fields_shape e tt); unfold_u; away_all.

Section UstarOk.
Variable e : entry.
Variable tt : Z.
Hypothesis Hok : fst (ustar_header e tt true) = 0%Z.

Let facts : ustar_ok_facts e tt := ustar_ok e tt Hok.

Theorem ustar_ok_mode : tar_atol (slice R_tar_mode_offset R_tar_mode_size (snd (ustar_header e tt true))) = Z.land (e_mode e) 4095.
Proof.
  apply (ustar_num6 e tt USTAR_mode_offset (Z.land (e_mode e) 4095) (u_strs e)
           ([u_uid e; u_gid e; u_size e; u_mtime e] ++ u_tail e tt)).
  - rewrite ustar_fields_shape. reflexivity.
  - unfold_u. away_all.
  - all_away e tt.
  - leaf.
  - reflexivity.
  - apply (uf_mode _ _ facts).
Qed.

Theorem ustar_ok_uid : tar_atol (slice R_tar_uid_offset R_tar_uid_size (snd (ustar_header e tt true))) = e_uid e.
Proof.
  apply (ustar_num6 e tt USTAR_uid_offset (e_uid e) (u_strs e ++ [u_mode e])
           ([u_gid e; u_size e; u_mtime e] ++ u_tail e tt)).
  - rewrite ustar_fields_shape. rewrite <- app_assoc. reflexivity.
  - unfold_u. away_all.
  - all_away e tt.
  - leaf.
  - reflexivity.
  - apply (uf_uid _ _ facts).
Qed.

Theorem ustar_ok_gid : tar_atol (slice R_tar_gid_offset R_tar_gid_size (snd (ustar_header e tt true))) = e_gid e.
Proof.
  apply (ustar_num6 e tt USTAR_gid_offset (e_gid e) (u_strs e ++ [u_mode e; u_uid e])
           ([u_size e; u_mtime e] ++ u_tail e tt)).
  - rewrite ustar_fields_shape. rewrite <- app_assoc. reflexivity.
  - unfold_u. away_all.
  - all_away e tt.
  - leaf.
  - reflexivity.
  - apply (uf_gid _ _ facts).
Qed.

Theorem ustar_ok_size : tar_atol (slice R_tar_size_offset R_tar_size_size (snd (ustar_header e tt true))) = size_of e.
Proof.
  apply (ustar_num11 e tt USTAR_size_offset (size_of e) USTAR_size_max_size (u_strs e ++ [u_mode e; u_uid e; u_gid e])
           ([u_mtime e] ++ u_tail e tt)).
  - rewrite ustar_fields_shape. rewrite <- app_assoc. reflexivity.
  - unfold_u. away_all.
  - all_away e tt.
  - leaf.
  - reflexivity.
  - apply (uf_size _ _ facts).
Qed.

Theorem ustar_ok_mtime : tar_atol (slice R_tar_mtime_offset R_tar_mtime_size (snd (ustar_header e tt true))) = e_mtime e.
Proof.
  apply (ustar_num11 e tt USTAR_mtime_offset (e_mtime e) USTAR_mtime_max_size
           (u_strs e ++ [u_mode e; u_uid e; u_gid e; u_size e]) (u_tail e tt)).
  - rewrite ustar_fields_shape. rewrite <- app_assoc. reflexivity.
  - unfold_u. away_all.
  - all_away e tt.
  - leaf.
  - reflexivity.
  - apply (uf_mtime _ _ facts).
Qed.

End UstarOk.

Section UstarOkDev.
Variable e : entry.
Variable tt : Z.
Hypothesis Hok : fst (ustar_header e tt true) = 0%Z.
Hypothesis Hdev : is_dev e = true.

Let facts : ustar_ok_facts e tt := ustar_ok e tt Hok.

Theorem ustar_ok_rdevmajor :
  tar_atol (slice R_tar_rdevmajor_offset R_tar_rdevmajor_size (snd (ustar_header e tt true))) = dev_major (e_rdev e).
Proof.
  apply (ustar_num6 e tt USTAR_rdevmajor_offset (dev_major (e_rdev e))
           (u_strs e ++ [u_mode e; u_uid e; u_gid e; u_size e; u_mtime e])
           ([(USTAR_rdevminor_offset, u_min e)] ++ u_tf e tt)).
  - rewrite ustar_fields_shape. unfold u_tail. rewrite Hdev. cbn [wr_if]. rewrite <- app_assoc. reflexivity.
  - unfold_u. away_all.
  - all_away e tt.
  - leaf.
  - reflexivity.
  - apply (uf_maj _ _ facts Hdev).
Qed.

Theorem ustar_ok_rdevminor :
  tar_atol (slice R_tar_rdevminor_offset R_tar_rdevminor_size (snd (ustar_header e tt true))) = dev_minor (e_rdev e).
Proof.
  apply (ustar_num6 e tt USTAR_rdevminor_offset (dev_minor (e_rdev e))
           (u_strs e ++ [u_mode e; u_uid e; u_gid e; u_size e; u_mtime e; (USTAR_rdevmajor_offset, u_maj e)])
           (u_tf e tt)).
  - rewrite ustar_fields_shape. unfold u_tail. rewrite Hdev. cbn [wr_if]. rewrite <- app_assoc. reflexivity.
  - unfold_u. away_all.
  - all_away e tt.
  - leaf.
  - reflexivity.
  - apply (uf_min _ _ facts Hdev).
Qed.

End UstarOkDev.

(* ------------------------------------------------------------------ strings of the ustar header *)
Lemma ustar_field_padded : forall e tt o bs k ws1 ws2,
  snd (ustar_fields e tt true) = ws1 ++ (o, bs) :: ws2 ->
  Forall (away o (length bs)) ws2 ->
  Forall (away (o + length bs) k) (snd (ustar_fields e tt true)) ->
  (o + length bs + k <= USTAR_checksum_offset \/ USTAR_checksum_offset + 7 <= o) ->
  slice o (length bs + k) (snd (ustar_header e tt true)) = bs ++ slice (o + length bs) k ustar_template.
Proof.
  intros e tt o bs k ws1 ws2 Heq Ha1 Ha2 Hck. rewrite slice_split.
  rewrite (ustar_field_slice e tt o bs ws1 ws2 Heq Ha1) by lia.
  rewrite ustar_untouched; [reflexivity | assumption | lia].
Qed.

Lemma ustar_name_writes_ok : forall pp, fst (ustar_name_writes pp) = 0%Z ->
  (length pp <= USTAR_name_size /\ snd (ustar_name_writes pp) = [(USTAR_name_offset, pp)]) \/
  (exists i, USTAR_name_size < length pp /\ ustar_split pp = Some i /\ S i < length pp /\ i <= USTAR_prefix_size /\
             snd (ustar_name_writes pp) = [(USTAR_prefix_offset, firstn i pp); (USTAR_name_offset, skipn (S i) pp)]).
Proof.
  intros pp H. unfold ustar_name_writes in *.
  destruct (length pp <=? USTAR_name_size) eqn:E.
  - left. apply Nat.leb_le in E. split; [assumption | reflexivity].
  - right. apply Nat.leb_gt in E.
    destruct (ustar_split pp) as [i|] eqn:Es; [|cbn [fst] in H; pose proof ST_FAILED_nz; contradiction].
    destruct (S i =? length pp) eqn:E2; [cbn [fst] in H; pose proof ST_FAILED_nz; contradiction|].
    destruct (USTAR_prefix_size <? i) eqn:E3; [cbn [fst] in H; pose proof ST_FAILED_nz; contradiction|].
    apply Nat.eqb_neq in E2. apply Nat.ltb_ge in E3.
    pose proof (ustar_split_spec pp i E Es) as [S1 [S2 [S3 S4]]].
    exists i. repeat split; try assumption; try lia.
Qed.

Lemma name_region_zero : slice USTAR_name_offset USTAR_name_size ustar_template = zeros USTAR_name_size.
Proof. reflexivity. Qed.
Lemma prefix_region_zero : slice USTAR_prefix_offset USTAR_prefix_size ustar_template = zeros USTAR_prefix_size.
Proof. reflexivity. Qed.
Lemma linkname_region_zero : slice USTAR_linkname_offset USTAR_linkname_size ustar_template = zeros USTAR_linkname_size.
Proof. reflexivity. Qed.
Lemma uname_region_zero : slice USTAR_uname_offset USTAR_uname_size ustar_template = zeros USTAR_uname_size.
Proof. reflexivity. Qed.
Lemma gname_region_zero : slice USTAR_gname_offset USTAR_gname_size ustar_template = zeros USTAR_gname_size.
Proof. reflexivity. Qed.

Lemma no_nul_firstn : forall n l, no_nul l -> no_nul (firstn n l).
Proof.
  unfold no_nul. induction n; intros l H; cbn [firstn]; [constructor|].
  destruct l; [constructor|]. inversion H; subst. constructor; [assumption | apply IHn; assumption].
Qed.
Lemma no_nul_skipn : forall n l, no_nul l -> no_nul (skipn n l).
Proof.
  unfold no_nul. induction n; intros l H; cbn [skipn]; [assumption|].
  destruct l; [constructor|]. inversion H; subst. apply IHn; assumption.
Qed.

Lemma firstn_skipn_middle : forall i (l : list Z), i < length l ->
  firstn i l ++ [nth i l 0%Z] ++ skipn (S i) l = l.
Proof.
  induction i; intros l H; destruct l as [|x t]; cbn [length] in H; try lia; cbn [firstn nth skipn app].
  - reflexivity.
  - f_equal. apply IHi. lia.
Qed.

Lemma last_byte_firstn : forall i (l : list Z), 0 < i -> i <= length l -> last_byte (firstn i l) = nth (i - 1) l 0%Z.
Proof.
  induction i; intros l H1 H2; [lia|].
  destruct l as [|x t]; cbn [length] in H2; [lia|]. cbn [firstn]. unfold last_byte in *.
  destruct i.
  - cbn. reflexivity.
  - replace (S (S i) - 1) with (S i) by lia. cbn [nth].
    replace (last (x :: firstn (S i) t) 0%Z) with (last (firstn (S i) t) 0%Z).
    + rewrite IHi by lia. f_equal. lia.
    + destruct t; [cbn [length] in H2; lia|]. cbn [firstn last]. reflexivity.
Qed.

Section UstarOkStrings.
Variable e : entry.
Variable tt : Z.
Hypothesis Hok : fst (ustar_header e tt true) = 0%Z.
Let facts : ustar_ok_facts e tt := ustar_ok e tt Hok.
Let h := snd (ustar_header e tt true).

(* the pathname comes back from prefix and name, provided it has no NUL and the byte in front of the
   separator chosen by the writer is not itself a '/' (the reader does not add a second one) *)
Theorem ustar_ok_pathname_gen : forall always,
  no_nul (ob (e_path e)) ->
  (always = false -> forall i, ustar_split (ob (e_path e)) = Some i -> nth (i - 1) (ob (e_path e)) 0%Z <> slash) ->
  ustar_join_gen always (slice R_tar_prefix_offset R_tar_prefix_size h) (slice R_tar_name_offset R_tar_name_size h) = ob (e_path e).
Proof.
  intros always Hnn Hds. subst h. set (pp := ob (e_path e)) in *.
  destruct (ustar_name_writes_ok pp (uf_name _ _ facts)) as [[Hlen Hw] | [i [Hlen [Hsp [Hi1 [Hi2 Hw]]]]]].
  - (* short name: one write, prefix untouched *)
    assert (Hname : slice USTAR_name_offset USTAR_name_size (snd (ustar_header e tt true)) = pp ++ zeros (USTAR_name_size - length pp)).
    { replace USTAR_name_size with (length pp + (USTAR_name_size - length pp)) at 1 by lia.
      rewrite (ustar_field_padded e tt USTAR_name_offset pp (USTAR_name_size - length pp) []
                 (tl (snd (ustar_fields e tt true)))).
      - f_equal. apply (slice_of_zero_region _ _ _ _ _ name_region_zero); unfold USTAR_name_offset; lia.
      - unfold ustar_fields; cbv zeta; cbn [snd]. fold pp. rewrite Hw. reflexivity.
      - unfold ustar_fields; cbv zeta; cbn [snd]. fold pp. rewrite Hw. cbn [app tl]. away_all.
      - unfold ustar_fields; cbv zeta; cbn [snd]. fold pp. rewrite Hw. cbn [app]. away_all.
      - leaf. }
    assert (Hpre : slice USTAR_prefix_offset USTAR_prefix_size (snd (ustar_header e tt true)) = zeros USTAR_prefix_size).
    { rewrite ustar_untouched; [apply prefix_region_zero | | leaf].
      unfold ustar_fields; cbv zeta; cbn [snd]. fold pp. rewrite Hw. cbn [app]. away_all. }
    change R_tar_prefix_offset with USTAR_prefix_offset. change R_tar_prefix_size with USTAR_prefix_size.
    change R_tar_name_offset with USTAR_name_offset. change R_tar_name_size with USTAR_name_size.
    rewrite Hpre, Hname. cbn [USTAR_prefix_size zeros repeat ustar_join_gen]. change (0 =? 0)%Z with true. cbv iota.
    apply cstr_app_zeros. assumption.
  - (* split name *)
    set (pre := firstn i pp) in *. set (nm := skipn (S i) pp) in *.
    pose proof (ustar_split_spec pp i Hlen Hsp) as [S1 [S2 [S3 S4]]].
    assert (Lpre : length pre = i) by (unfold pre; rewrite firstn_length; lia).
    assert (Lnm : length nm = length pp - S i) by (unfold nm; apply skipn_length).
    assert (Hname : slice USTAR_name_offset USTAR_name_size (snd (ustar_header e tt true)) = nm ++ zeros (USTAR_name_size - length nm)).
    { replace USTAR_name_size with (length nm + (USTAR_name_size - length nm)) at 1 by (unfold USTAR_name_size in *; lia).
      rewrite (ustar_field_padded e tt USTAR_name_offset nm (USTAR_name_size - length nm) [(USTAR_prefix_offset, pre)]
                 (tl (tl (snd (ustar_fields e tt true))))).
      - f_equal. apply (slice_of_zero_region _ _ _ _ _ name_region_zero); unfold USTAR_name_offset, USTAR_name_size in *; lia.
      - unfold ustar_fields; cbv zeta; cbn [snd]. fold pp. rewrite Hw. reflexivity.
      - unfold ustar_fields; cbv zeta; cbn [snd]. fold pp. rewrite Hw. cbn [app tl]. away_all.
      - unfold ustar_fields; cbv zeta; cbn [snd]. fold pp. rewrite Hw. cbn [app]. away_all.
      - leaf. }
    assert (Hpre : slice USTAR_prefix_offset USTAR_prefix_size (snd (ustar_header e tt true)) = pre ++ zeros (USTAR_prefix_size - length pre)).
    { replace USTAR_prefix_size with (length pre + (USTAR_prefix_size - length pre)) at 1 by lia.
      rewrite (ustar_field_padded e tt USTAR_prefix_offset pre (USTAR_prefix_size - length pre) []
                 (tl (snd (ustar_fields e tt true)))).
      - f_equal. apply (slice_of_zero_region _ _ _ _ _ prefix_region_zero); unfold USTAR_prefix_offset; lia.
      - unfold ustar_fields; cbv zeta; cbn [snd]. fold pp. rewrite Hw. reflexivity.
      - unfold ustar_fields; cbv zeta; cbn [snd]. fold pp. rewrite Hw. cbn [app tl]. away_all.
      - unfold ustar_fields; cbv zeta; cbn [snd]. fold pp. rewrite Hw. cbn [app]. away_all.
      - leaf. }
    change R_tar_prefix_offset with USTAR_prefix_offset. change R_tar_prefix_size with USTAR_prefix_size.
    change R_tar_name_offset with USTAR_name_offset. change R_tar_name_size with USTAR_name_size.
    rewrite Hpre, Hname.
    assert (Hnpre : no_nul pre) by (apply no_nul_firstn; assumption).
    assert (Hnnm : no_nul nm) by (apply no_nul_skipn; assumption).
    destruct pre as [|c pre'] eqn:Epre; [cbn [length] in Lpre; lia|].
    cbn [app ustar_join_gen].
    assert (Hc0 : c <> 0%Z) by (inversion Hnpre; assumption).
    destruct (c =? 0)%Z eqn:Ec; [apply Z.eqb_eq in Ec; contradiction|].
    change (c :: pre' ++ zeros (USTAR_prefix_size - length (c :: pre'))) with ((c :: pre') ++ zeros (USTAR_prefix_size - length (c :: pre'))).
    rewrite cstr_app_zeros by assumption. rewrite cstr_app_zeros by assumption.
    rewrite <- Epre.
    assert (Hl : last_byte pre = nth (i - 1) pp 0%Z) by (unfold pre; apply last_byte_firstn; lia).
    rewrite Hl.
    assert (Hc : always || negb (nth (i - 1) pp 0 =? slash)%Z = true).
    { destruct always; [reflexivity|]. cbn [orb]. specialize (Hds eq_refl i Hsp).
      destruct (nth (i - 1) pp 0 =? slash)%Z eqn:El; [apply Z.eqb_eq in El; contradiction | reflexivity]. }
    rewrite Hc.
    rewrite <- S4. rewrite <- app_assoc. unfold pre, nm. apply firstn_skipn_middle. assumption.
Qed.

(* the statement for the shape of the reader the source has *)
Theorem ustar_ok_pathname :
  no_nul (ob (e_path e)) ->
  (forall i, ustar_split (ob (e_path e)) = Some i -> nth (i - 1) (ob (e_path e)) 0%Z <> slash) ->
  ustar_join (slice R_tar_prefix_offset R_tar_prefix_size h) (slice R_tar_name_offset R_tar_name_size h) = ob (e_path e).
Proof. intros Hnn Hds. apply ustar_ok_pathname_gen; [assumption | intros _; assumption]. Qed.

(* a reader that always puts the '/' needs no side condition *)
Theorem ustar_ok_pathname_always :
  no_nul (ob (e_path e)) ->
  ustar_join_gen true (slice R_tar_prefix_offset R_tar_prefix_size h) (slice R_tar_name_offset R_tar_name_size h) = ob (e_path e).
Proof. intros Hnn. apply ustar_ok_pathname_gen; [assumption | discriminate]. Qed.

End UstarOkStrings.

Lemma firstn_all_le : forall n (l : list Z), length l <= n -> firstn n l = l.
Proof. intros. apply firstn_all2. assumption. Qed.

Lemma cstr_zeros : forall n, cstr (zeros n) = [].
Proof. destruct n; reflexivity. Qed.

Section UstarOkStrings2.
Variable e : entry.
Variable tt : Z.
Hypothesis Hok : fst (ustar_header e tt true) = 0%Z.
Let facts : ustar_ok_facts e tt := ustar_ok e tt Hok.

Definition u_nums (e : entry) : list wr := [u_mode e; u_uid e; u_gid e; u_size e; u_mtime e].
Definition w_link (e : entry) := wr_if (0 <? length (linkname_of e)) USTAR_linkname_offset (firstn USTAR_linkname_size (linkname_of e)).
Definition w_un (e : entry) := wr_if (0 <? length (ob (e_uname e))) USTAR_uname_offset (firstn USTAR_uname_size (ob (e_uname e))).
Definition w_gn (e : entry) := wr_if (0 <? length (ob (e_gname e))) USTAR_gname_offset (firstn USTAR_gname_size (ob (e_gname e))).

Lemma ustar_fields_shape2 :
  snd (ustar_fields e tt true) = snd (ustar_name_writes (ob (e_path e))) ++ w_link e ++ w_un e ++ w_gn e ++ u_nums e ++ u_tail e tt.
Proof.
  rewrite ustar_fields_shape. unfold u_strs, w_link, w_un, w_gn, u_nums. repeat rewrite <- app_assoc. reflexivity.
Qed.

Ltac unfold_w := unfold w_link, w_un, w_gn, u_nums in *; unfold_u.

Lemma wr_if_nonempty : forall (s : list Z) o n, s <> [] -> length s <= n ->
  wr_if (0 <? length s) o (firstn n s) = [(o, s)].
Proof.
  intros s o n Hs Hl. destruct s; [contradiction|]. cbn [length Nat.ltb Nat.leb wr_if].
  rewrite firstn_all_le by assumption. reflexivity.
Qed.

Theorem ustar_ok_linkname :
  no_nul (linkname_of e) ->
  cstr (slice R_tar_linkname_offset R_tar_linkname_size (snd (ustar_header e tt true))) = linkname_of e.
Proof.
  intros Hnn. pose proof (uf_link _ _ facts) as Hlen.
  change R_tar_linkname_offset with USTAR_linkname_offset. change R_tar_linkname_size with USTAR_linkname_size.
  set (s := linkname_of e) in *.
  destruct s as [|c t] eqn:El.
  - rewrite ustar_untouched; [rewrite linkname_region_zero; apply cstr_zeros | | leaf].
    rewrite ustar_fields_shape2. unfold_w. fold s. rewrite El. away_all.
  - rewrite <- El in *.
    replace USTAR_linkname_size with (length s + (USTAR_linkname_size - length s)) at 1 by lia.
    rewrite (ustar_field_padded e tt USTAR_linkname_offset s (USTAR_linkname_size - length s)
               (snd (ustar_name_writes (ob (e_path e)))) (w_un e ++ w_gn e ++ u_nums e ++ u_tail e tt)).
    + rewrite (slice_of_zero_region _ _ _ _ _ linkname_region_zero) by (unfold USTAR_linkname_offset; lia).
      apply cstr_app_zeros. assumption.
    + rewrite ustar_fields_shape2. unfold w_link. fold s. rewrite wr_if_nonempty; [reflexivity | rewrite El; discriminate | assumption].
    + unfold_w. away_all.
    + rewrite ustar_fields_shape2. unfold_w. fold s. away_all.
    + leaf.
Qed.

Theorem ustar_ok_uname : tt <> 120%Z ->
  no_nul (ob (e_uname e)) ->
  cstr (slice R_tar_uname_offset R_tar_uname_size (snd (ustar_header e tt true))) = ob (e_uname e).
Proof.
  intros Htt Hnn. pose proof (uf_uname _ _ facts Htt) as Hlen.
  change R_tar_uname_offset with USTAR_uname_offset. change R_tar_uname_size with USTAR_uname_size.
  set (s := ob (e_uname e)) in *.
  destruct s as [|c t] eqn:El.
  - rewrite ustar_untouched; [rewrite uname_region_zero; apply cstr_zeros | | leaf].
    rewrite ustar_fields_shape2. unfold_w. fold s. rewrite El. away_all.
  - rewrite <- El in *.
    replace USTAR_uname_size with (length s + (USTAR_uname_size - length s)) at 1 by lia.
    rewrite (ustar_field_padded e tt USTAR_uname_offset s (USTAR_uname_size - length s)
               (snd (ustar_name_writes (ob (e_path e))) ++ w_link e) (w_gn e ++ u_nums e ++ u_tail e tt)).
    + rewrite (slice_of_zero_region _ _ _ _ _ uname_region_zero) by (unfold USTAR_uname_offset; lia).
      apply cstr_app_zeros. assumption.
    + rewrite ustar_fields_shape2. unfold w_un. fold s. rewrite wr_if_nonempty; [| rewrite El; discriminate | assumption].
      rewrite <- app_assoc. reflexivity.
    + unfold_w. away_all.
    + rewrite ustar_fields_shape2. unfold_w. fold s. away_all.
    + leaf.
Qed.

Theorem ustar_ok_gname : tt <> 120%Z ->
  no_nul (ob (e_gname e)) ->
  cstr (slice R_tar_gname_offset R_tar_gname_size (snd (ustar_header e tt true))) = ob (e_gname e).
Proof.
  intros Htt Hnn. pose proof (uf_gname _ _ facts Htt) as Hlen.
  change R_tar_gname_offset with USTAR_gname_offset. change R_tar_gname_size with USTAR_gname_size.
  set (s := ob (e_gname e)) in *.
  destruct s as [|c t] eqn:El.
  - rewrite ustar_untouched; [rewrite gname_region_zero; apply cstr_zeros | | leaf].
    rewrite ustar_fields_shape2. unfold_w. fold s. rewrite El. away_all.
  - rewrite <- El in *.
    replace USTAR_gname_size with (length s + (USTAR_gname_size - length s)) at 1 by lia.
    rewrite (ustar_field_padded e tt USTAR_gname_offset s (USTAR_gname_size - length s)
               (snd (ustar_name_writes (ob (e_path e))) ++ w_link e ++ w_un e) (u_nums e ++ u_tail e tt)).
    + rewrite (slice_of_zero_region _ _ _ _ _ gname_region_zero) by (unfold USTAR_gname_offset; lia).
      apply cstr_app_zeros. assumption.
    + rewrite ustar_fields_shape2. unfold w_gn. fold s. rewrite wr_if_nonempty; [| rewrite El; discriminate | assumption].
      repeat rewrite <- app_assoc. reflexivity.
    + unfold_w. away_all.
    + rewrite ustar_fields_shape2. unfold_w. fold s. away_all.
    + leaf.
Qed.

End UstarOkStrings2.

(* ------------------------------------------------------------------ the same for any 512-byte templated header *)
Definition ck_ok (cko : nat) (ck : list Z -> list Z) : Prop :=
  forall h o n, length h = 512 -> (o + n <= cko \/ cko + 7 <= o) -> slice o n (ck h) = slice o n h.

Lemma hdr_field_slice : forall ws tmpl ck cko o bs ws1 ws2,
  length tmpl = 512 -> Forall (inb 512) ws -> ck_ok cko ck ->
  ws = ws1 ++ (o, bs) :: ws2 -> Forall (away o (length bs)) ws2 ->
  (o + length bs <= cko \/ cko + 7 <= o) ->
  slice o (length bs) (ck (apply_writes ws tmpl)) = bs.
Proof.
  intros ws tmpl ck cko o bs ws1 ws2 HL HI Hck Heq Haway Ho.
  rewrite Hck; [| rewrite apply_writes_length; rewrite HL; [reflexivity | assumption] | assumption].
  rewrite Heq. apply apply_writes_field; [|assumption]. rewrite <- Heq. rewrite HL. assumption.
Qed.

Lemma hdr_untouched : forall ws tmpl ck cko o n,
  length tmpl = 512 -> Forall (inb 512) ws -> ck_ok cko ck ->
  Forall (away o n) ws -> (o + n <= cko \/ cko + 7 <= o) ->
  slice o n (ck (apply_writes ws tmpl)) = slice o n tmpl.
Proof.
  intros ws tmpl ck cko o n HL HI Hck Haway Ho.
  rewrite Hck; [| rewrite apply_writes_length; rewrite HL; [reflexivity | assumption] | assumption].
  apply apply_writes_slice_other; [rewrite HL|]; assumption.
Qed.

(* a numeric field of s digits written by the strict formatter and read through a window of s + k bytes
   whose last k bytes are the template's terminator *)
Lemma hdr_num_strict : forall ws tmpl ck cko o v s mx k term ws1 ws2,
  length tmpl = 512 -> Forall (inb 512) ws -> ck_ok cko ck ->
  ws = ws1 ++ (o, snd (ustar_format_number v s mx true)) :: ws2 ->
  Forall (away o s) ws2 -> Forall (away (o + s) k) ws ->
  (o + s + k <= cko \/ cko + 7 <= o) ->
  slice (o + s) k tmpl = term -> stops 8 term -> (0 < s <= 19) ->
  fst (ustar_format_number v s mx true) = 0%Z ->
  tar_atol (slice o (s + k) (ck (apply_writes ws tmpl))) = v.
Proof.
  intros ws tmpl ck cko o v s mx k term ws1 ws2 HL HI Hck Heq Ha1 Ha2 Ho Hterm Hstop Hs Hok.
  rewrite slice_split.
  pose proof (ustar_fn_strict_length v s mx) as Hlen.
  rewrite <- Hlen at 1.
  rewrite (hdr_field_slice ws tmpl ck cko o _ ws1 ws2 HL HI Hck Heq); [| rewrite Hlen; assumption | rewrite Hlen; lia].
  rewrite (hdr_untouched ws tmpl ck cko (o + s) k HL HI Hck Ha2) by lia.
  rewrite Hterm. apply ustar_strict_exact; assumption.
Qed.

(* ------------------------------------------------------------------ v7tar *)
Ltac leaf7 :=
  unfold inb, away; cbn [fst snd length];
  rewrite ?ustar_fn_strict_length, ?ustar_format_octal_length, ?firstn_length;
  unfold V7TAR_name_offset, V7TAR_name_size, V7TAR_mode_offset, V7TAR_mode_size, V7TAR_uid_offset, V7TAR_uid_size,
    V7TAR_gid_offset, V7TAR_gid_size, V7TAR_size_offset, V7TAR_size_size, V7TAR_mtime_offset, V7TAR_mtime_size,
    V7TAR_checksum_offset, V7TAR_checksum_size, V7TAR_typeflag_offset, V7TAR_linkname_offset, V7TAR_linkname_size in *;
  lia.

Ltac v7_forall := unfold v7tar_fields; cbv zeta; cbn [snd];
  repeat match goal with
  | |- Forall _ (_ ++ _) => apply Forall_app; split
  | |- Forall _ (wr_if _ _ _) => apply Forall_wr_if; let H := fresh in intros H; try apply Nat.ltb_lt in H
  | |- Forall _ (_ :: _) => constructor
  | |- Forall _ [] => constructor
  | |- Forall _ (match (if ?c then _ else _) with _ => _ end) => destruct c
  | |- Forall _ (match Some _ with _ => _ end) => cbv iota
  | |- Forall _ (match None with _ => _ end) => cbv iota
  end; try leaf7.

Lemma v7tar_fields_inb : forall e, Forall (inb 512) (snd (v7tar_fields e true)).
Proof. intros. v7_forall. Qed.

Lemma ck_ok_v7 : ck_ok V7TAR_checksum_offset tar_checksum_v7.
Proof.
  intros h o n HL Ho. unfold tar_checksum_v7.
  rewrite slice_put_other.
  - apply slice_put_other; rewrite ?ustar_format_octal_length; unfold V7TAR_checksum_offset in *; lia.
  - rewrite put_length; rewrite ?ustar_format_octal_length; cbn [length]; unfold V7TAR_checksum_offset in *; lia.
  - cbn [length]. unfold V7TAR_checksum_offset in *. lia.
Qed.

Theorem v7tar_header_length : forall e, length (snd (v7tar_header e true)) = 512.
Proof.
  intros. unfold v7tar_header, tar_checksum_v7. cbn [snd].
  assert (HL : length (apply_writes (snd (v7tar_fields e true)) v7tar_template) = 512)
    by (rewrite apply_writes_length; [reflexivity | apply v7tar_fields_inb]).
  rewrite put_length; rewrite put_length; rewrite ?ustar_format_octal_length; cbn [length]; rewrite ?HL;
    unfold V7TAR_checksum_offset; try lia.
Qed.

Record v7tar_ok_facts (e : entry) : Prop := {
  vf_name : length (ob (e_path e)) < V7TAR_name_size;
  vf_link : length (linkname_of e) < V7TAR_linkname_size;
  vf_mode : fst (ustar_format_number (Z.land (e_mode e) 4095) V7TAR_mode_size V7TAR_mode_max_size true) = 0%Z;
  vf_uid : fst (ustar_format_number (e_uid e) V7TAR_uid_size V7TAR_uid_max_size true) = 0%Z;
  vf_gid : fst (ustar_format_number (e_gid e) V7TAR_gid_size V7TAR_gid_max_size true) = 0%Z;
  vf_size : fst (ustar_format_number (size_of e) V7TAR_size_size V7TAR_size_max_size true) = 0%Z;
  vf_mtime : fst (ustar_format_number (e_mtime e) V7TAR_mtime_size V7TAR_mtime_max_size true) = 0%Z
}.

Lemma v7tar_ok : forall e, fst (v7tar_fields e true) = 0%Z -> v7tar_ok_facts e.
Proof.
  intros e H. unfold v7tar_fields in H. cbv zeta in H. cbn [fst] in H.
  repeat match type of H with
  | pick _ ST_FAILED _ = 0%Z => apply (pick_zero _ _ _ ST_FAILED_nz) in H; let C := fresh "C" in destruct H as [C H]
  end.
  constructor; try (apply negb_eqb0; assumption).
  - match goal with Hc : negb (_ <? V7TAR_name_size) = false |- _ =>
      apply negb_false_iff in Hc; apply Nat.ltb_lt; assumption end.
  - match goal with Hc : (V7TAR_linkname_size <=? _) = false |- _ => apply Nat.leb_gt; assumption end.
Qed.

Ltac v7_away := v7_forall.

Section V7Ok.
Variable e : entry.
Hypothesis Hok : fst (v7tar_header e true) = 0%Z.
Let facts : v7tar_ok_facts e := v7tar_ok e Hok.

Theorem v7tar_ok_mode : tar_atol (slice R_tar_mode_offset R_tar_mode_size (snd (v7tar_header e true))) = Z.land (e_mode e) 4095.
Proof.
  unfold v7tar_header; cbn [snd].
  eapply (hdr_num_strict (snd (v7tar_fields e true)) v7tar_template tar_checksum_v7 V7TAR_checksum_offset
            V7TAR_mode_offset _ 6 _ 2 _
            (wr_if (length (ob (e_path e)) <? V7TAR_name_size) V7TAR_name_offset (ob (e_path e))
             ++ wr_if (0 <? length (linkname_of e)) V7TAR_linkname_offset (firstn V7TAR_linkname_size (linkname_of e)))).
  - reflexivity.
  - apply v7tar_fields_inb.
  - apply ck_ok_v7.
  - unfold v7tar_fields; cbv zeta; cbn [snd]. repeat rewrite <- app_assoc. cbn [app]. reflexivity.
  - v7_away.
  - v7_away.
  - leaf7.
  - reflexivity.
  - cbn; lia.
  - lia.
  - apply (vf_mode _ facts).
Qed.

Theorem v7tar_ok_uid : tar_atol (slice R_tar_uid_offset R_tar_uid_size (snd (v7tar_header e true))) = e_uid e.
Proof.
  unfold v7tar_header; cbn [snd].
  eapply (hdr_num_strict (snd (v7tar_fields e true)) v7tar_template tar_checksum_v7 V7TAR_checksum_offset
            V7TAR_uid_offset _ 6 _ 2 _
            (wr_if (length (ob (e_path e)) <? V7TAR_name_size) V7TAR_name_offset (ob (e_path e))
             ++ wr_if (0 <? length (linkname_of e)) V7TAR_linkname_offset (firstn V7TAR_linkname_size (linkname_of e))
             ++ [(V7TAR_mode_offset, snd (ustar_format_number (Z.land (e_mode e) 4095) V7TAR_mode_size V7TAR_mode_max_size true))])).
  - reflexivity.
  - apply v7tar_fields_inb.
  - apply ck_ok_v7.
  - unfold v7tar_fields; cbv zeta; cbn [snd]. repeat rewrite <- app_assoc. cbn [app]. reflexivity.
  - v7_away.
  - v7_away.
  - leaf7.
  - reflexivity.
  - cbn; lia.
  - lia.
  - apply (vf_uid _ facts).
Qed.

Theorem v7tar_ok_gid : tar_atol (slice R_tar_gid_offset R_tar_gid_size (snd (v7tar_header e true))) = e_gid e.
Proof.
  unfold v7tar_header; cbn [snd].
  eapply (hdr_num_strict (snd (v7tar_fields e true)) v7tar_template tar_checksum_v7 V7TAR_checksum_offset
            V7TAR_gid_offset _ 6 _ 2 _
            (wr_if (length (ob (e_path e)) <? V7TAR_name_size) V7TAR_name_offset (ob (e_path e))
             ++ wr_if (0 <? length (linkname_of e)) V7TAR_linkname_offset (firstn V7TAR_linkname_size (linkname_of e))
             ++ [(V7TAR_mode_offset, snd (ustar_format_number (Z.land (e_mode e) 4095) V7TAR_mode_size V7TAR_mode_max_size true));
                 (V7TAR_uid_offset, snd (ustar_format_number (e_uid e) V7TAR_uid_size V7TAR_uid_max_size true))])).
  - reflexivity.
  - apply v7tar_fields_inb.
  - apply ck_ok_v7.
  - unfold v7tar_fields; cbv zeta; cbn [snd]. repeat rewrite <- app_assoc. cbn [app]. reflexivity.
  - v7_away.
  - v7_away.
  - leaf7.
  - reflexivity.
  - cbn; lia.
  - lia.
  - apply (vf_gid _ facts).
Qed.

Theorem v7tar_ok_size : tar_atol (slice R_tar_size_offset R_tar_size_size (snd (v7tar_header e true))) = size_of e.
Proof.
  unfold v7tar_header; cbn [snd].
  eapply (hdr_num_strict (snd (v7tar_fields e true)) v7tar_template tar_checksum_v7 V7TAR_checksum_offset
            V7TAR_size_offset _ 11 _ 1 _
            (wr_if (length (ob (e_path e)) <? V7TAR_name_size) V7TAR_name_offset (ob (e_path e))
             ++ wr_if (0 <? length (linkname_of e)) V7TAR_linkname_offset (firstn V7TAR_linkname_size (linkname_of e))
             ++ [(V7TAR_mode_offset, snd (ustar_format_number (Z.land (e_mode e) 4095) V7TAR_mode_size V7TAR_mode_max_size true));
                 (V7TAR_uid_offset, snd (ustar_format_number (e_uid e) V7TAR_uid_size V7TAR_uid_max_size true));
                 (V7TAR_gid_offset, snd (ustar_format_number (e_gid e) V7TAR_gid_size V7TAR_gid_max_size true))])).
  - reflexivity.
  - apply v7tar_fields_inb.
  - apply ck_ok_v7.
  - unfold v7tar_fields; cbv zeta; cbn [snd]. repeat rewrite <- app_assoc. cbn [app]. reflexivity.
  - v7_away.
  - v7_away.
  - leaf7.
  - reflexivity.
  - cbn; lia.
  - lia.
  - apply (vf_size _ facts).
Qed.

Theorem v7tar_ok_mtime : tar_atol (slice R_tar_mtime_offset R_tar_mtime_size (snd (v7tar_header e true))) = e_mtime e.
Proof.
  unfold v7tar_header; cbn [snd].
  eapply (hdr_num_strict (snd (v7tar_fields e true)) v7tar_template tar_checksum_v7 V7TAR_checksum_offset
            V7TAR_mtime_offset _ 11 _ 1 _
            (wr_if (length (ob (e_path e)) <? V7TAR_name_size) V7TAR_name_offset (ob (e_path e))
             ++ wr_if (0 <? length (linkname_of e)) V7TAR_linkname_offset (firstn V7TAR_linkname_size (linkname_of e))
             ++ [(V7TAR_mode_offset, snd (ustar_format_number (Z.land (e_mode e) 4095) V7TAR_mode_size V7TAR_mode_max_size true));
                 (V7TAR_uid_offset, snd (ustar_format_number (e_uid e) V7TAR_uid_size V7TAR_uid_max_size true));
                 (V7TAR_gid_offset, snd (ustar_format_number (e_gid e) V7TAR_gid_size V7TAR_gid_max_size true));
                 (V7TAR_size_offset, snd (ustar_format_number (size_of e) V7TAR_size_size V7TAR_size_max_size true))])).
  - reflexivity.
  - apply v7tar_fields_inb.
  - apply ck_ok_v7.
  - unfold v7tar_fields; cbv zeta; cbn [snd]. repeat rewrite <- app_assoc. cbn [app]. reflexivity.
  - v7_away.
  - v7_away.
  - leaf7.
  - reflexivity.
  - cbn; lia.
  - lia.
  - apply (vf_mtime _ facts).
Qed.

End V7Ok.

(* ------------------------------------------------------------------ gnutar *)
Lemma hdr_field_window : forall ws tmpl ck cko o bs k ws1 ws2,
  length tmpl = 512 -> Forall (inb 512) ws -> ck_ok cko ck ->
  ws = ws1 ++ (o, bs) :: ws2 -> Forall (away o (length bs)) ws2 -> Forall (away (o + length bs) k) ws ->
  (o + length bs + k <= cko \/ cko + 7 <= o) ->
  slice o (length bs + k) (ck (apply_writes ws tmpl)) = bs ++ slice (o + length bs) k tmpl.
Proof.
  intros ws tmpl ck cko o bs k ws1 ws2 HL HI Hck Heq Ha1 Ha2 Ho. rewrite slice_split.
  rewrite (hdr_field_slice ws tmpl ck cko o bs ws1 ws2 HL HI Hck Heq Ha1) by lia.
  rewrite (hdr_untouched ws tmpl ck cko (o + length bs) k HL HI Hck Ha2) by lia. reflexivity.
Qed.

Lemma gnutar_format_octal_length : forall v s, length (snd (gnutar_format_octal v s)) = s.
Proof.
  intros. unfold gnutar_format_octal. cbv zeta.
  destruct ((if v <? 0 then 0 else v) / zpow 8 s =? 0)%Z; cbn [snd]; [|apply repeat_length].
  rewrite map_length. apply digits_be_length.
Qed.

Lemma gnutar_format_256_length_le : forall v s, length (snd (gnutar_format_256 v s)) <= s.
Proof.
  intros. unfold gnutar_format_256.
  match goal with |- context [if ?c then _ else _] => destruct c end; cbn [snd length]; [lia|].
  rewrite format_256_length. lia.
Qed.

Lemma gnutar_fn_length_le : forall v s mx, s <= mx -> length (snd (gnutar_format_number v s mx)) <= mx.
Proof.
  intros. unfold gnutar_format_number. destruct ((0 <=? v)%Z && (v <? zpow 8 s)%Z).
  - rewrite gnutar_format_octal_length. assumption.
  - apply gnutar_format_256_length_le.
Qed.

Lemma gnutar_fn_length_ok : forall v s mx, fst (gnutar_format_number v s mx) = 0%Z ->
  length (snd (gnutar_format_number v s mx)) = if ((0 <=? v)%Z && (v <? zpow 8 s)%Z) then s else mx.
Proof.
  intros v s mx. unfold gnutar_format_number. destruct ((0 <=? v)%Z && (v <? zpow 8 s)%Z).
  - intros _. apply gnutar_format_octal_length.
  - unfold gnutar_format_256.
    match goal with |- context [if ?c then _ else _] => destruct c end; cbn [fst snd]; [intros H; exfalso; lia|].
    intros _. apply format_256_length.
Qed.

Ltac leafg :=
  unfold inb, away; cbn [fst snd length];
  rewrite ?gnutar_format_octal_length, ?firstn_length;
  cbn [length];
  repeat match goal with
  | |- context [length (snd (gnutar_format_number ?v ?s ?mx))] =>
      let H := fresh "Hl" in pose proof (gnutar_fn_length_le v s mx) as H;
      generalize dependent (length (snd (gnutar_format_number v s mx))); intros
  end;
  unfold GNUTAR_name_offset, GNUTAR_name_size, GNUTAR_mode_offset, GNUTAR_mode_size, GNUTAR_uid_offset, GNUTAR_uid_size,
    GNUTAR_uid_max_size, GNUTAR_gid_offset, GNUTAR_gid_size, GNUTAR_gid_max_size, GNUTAR_size_offset, GNUTAR_size_size,
    GNUTAR_size_max_size, GNUTAR_mtime_offset, GNUTAR_mtime_size, GNUTAR_mtime_max_size,
    GNUTAR_checksum_offset, GNUTAR_checksum_size, GNUTAR_typeflag_offset, GNUTAR_linkname_offset, GNUTAR_linkname_size,
    GNUTAR_uname_offset, GNUTAR_uname_size, GNUTAR_gname_offset, GNUTAR_gname_size, GNUTAR_rdevmajor_offset,
    GNUTAR_rdevmajor_size, GNUTAR_rdevminor_offset, GNUTAR_rdevminor_size in *;
  lia.

Ltac g_forall := unfold gnutar_fields; cbv zeta; cbn [snd]; split_forall; try leafg.

Lemma gnutar_fields_inb : forall name lk un gn e t, Forall (inb 512) (snd (gnutar_fields name lk un gn e t)).
Proof. intros. g_forall. Qed.

Lemma ck_ok_gnu : ck_ok GNUTAR_checksum_offset tar_checksum_gnu.
Proof.
  intros h o n HL Ho. unfold tar_checksum_gnu.
  rewrite slice_put_other.
  - apply slice_put_other; cbn [length]; unfold GNUTAR_checksum_offset in *; lia.
  - rewrite put_length; rewrite ?gnutar_format_octal_length; cbn [length]; unfold GNUTAR_checksum_offset in *; lia.
  - rewrite gnutar_format_octal_length. unfold GNUTAR_checksum_offset in *. lia.
Qed.

Theorem gnutar_header_length : forall name lk un gn e t, length (snd (gnutar_header name lk un gn e t)) = 512.
Proof.
  intros. unfold gnutar_header, tar_checksum_gnu. cbn [snd].
  assert (HL : length (apply_writes (snd (gnutar_fields name lk un gn e t)) gnutar_template) = 512)
    by (rewrite apply_writes_length; [reflexivity | apply gnutar_fields_inb]).
  rewrite put_length; rewrite put_length; rewrite ?gnutar_format_octal_length; cbn [length]; rewrite ?HL;
    unfold GNUTAR_checksum_offset; try lia.
Qed.

Lemma stops_nul : stops 8 [0]%Z.
Proof. cbn. lia. Qed.

Lemma pick_failed_ge : forall c ret, (ST_WARN <= pick c ST_FAILED ret)%Z -> c = false /\ (ST_WARN <= ret)%Z.
Proof.
  intros c ret H. unfold pick in H. destruct c; [|auto].
  unfold ST_WARN, ST_FAILED, ARCHIVE_WARN, ARCHIVE_FAILED in H. lia.
Qed.

Section GnuOk.
Variables name lk un gn : list Z.
Variable e : entry.
Variable t : Z.
Let h := snd (gnutar_header name lk un gn e t).

Definition gnu_pre_num : list wr :=
  [(GNUTAR_name_offset, firstn GNUTAR_name_size name)]
  ++ wr_if (0 <? length lk) GNUTAR_linkname_offset (firstn GNUTAR_linkname_size lk)
  ++ wr_if (0 <? length un) GNUTAR_uname_offset (firstn GNUTAR_uname_size un)
  ++ wr_if (0 <? length gn) GNUTAR_gname_offset (firstn GNUTAR_gname_size gn).
Definition g_mode : wr := (GNUTAR_mode_offset, snd (gnutar_format_octal (Z.land (e_mode e) 4095) GNUTAR_mode_size)).
Definition g_uid : wr := (GNUTAR_uid_offset, snd (gnutar_format_number (e_uid e) GNUTAR_uid_size GNUTAR_uid_max_size)).
Definition g_gid : wr := (GNUTAR_gid_offset, snd (gnutar_format_number (e_gid e) GNUTAR_gid_size GNUTAR_gid_max_size)).
Definition g_size : wr := (GNUTAR_size_offset, snd (gnutar_format_number (size_of e) GNUTAR_size_size GNUTAR_size_max_size)).
Definition g_mtime : wr := (GNUTAR_mtime_offset, snd (gnutar_format_number (e_mtime e) GNUTAR_mtime_size GNUTAR_mtime_max_size)).
Definition g_tail : list wr :=
  wr_if (is_dev e) GNUTAR_rdevmajor_offset (snd (gnutar_format_octal (dev_major (e_rdev e)) GNUTAR_rdevmajor_size))
  ++ wr_if (is_dev e) GNUTAR_rdevminor_offset (snd (gnutar_format_octal (dev_minor (e_rdev e)) GNUTAR_rdevminor_size))
  ++ [(GNUTAR_typeflag_offset, [t])].

Lemma gnutar_fields_shape :
  snd (gnutar_fields name lk un gn e t) = gnu_pre_num ++ [g_mode; g_uid; g_gid; g_size; g_mtime] ++ g_tail.
Proof.
  unfold gnutar_fields, gnu_pre_num, g_tail, g_mode, g_uid, g_gid, g_size, g_mtime. cbv zeta. cbn [snd].
  repeat rewrite <- app_assoc. reflexivity.
Qed.

Ltac unfold_g := unfold gnu_pre_num, g_tail, g_mode, g_uid, g_gid, g_size, g_mtime in *.

(* a header that is written at all (status OK or WARN) has every numeric formatter result zero *)
Record gnutar_ok_facts : Prop := {
  gf_uid : fst (gnutar_format_number (e_uid e) GNUTAR_uid_size GNUTAR_uid_max_size) = 0%Z;
  gf_gid : fst (gnutar_format_number (e_gid e) GNUTAR_gid_size GNUTAR_gid_max_size) = 0%Z;
  gf_size : fst (gnutar_format_number (size_of e) GNUTAR_size_size GNUTAR_size_max_size) = 0%Z;
  gf_mtime : fst (gnutar_format_number (e_mtime e) GNUTAR_mtime_size GNUTAR_mtime_max_size) = 0%Z
}.

Lemma gnutar_ok : (ST_WARN <= fst (gnutar_header name lk un gn e t))%Z -> gnutar_ok_facts.
Proof.
  intros H. unfold gnutar_header in H. cbn [fst] in H. unfold gnutar_fields in H. cbv zeta in H. cbn [fst] in H.
  repeat match type of H with
  | (ST_WARN <= pick _ ST_FAILED _)%Z => apply pick_failed_ge in H; let C := fresh "C" in destruct H as [C H]
  end.
  constructor; apply negb_eqb0; assumption.
Qed.

(* status exactly OK: the user and group names fit their fields *)
Lemma gnutar_ok_names : fst (gnutar_header name lk un gn e t) = 0%Z ->
  length un <= GNUTAR_uname_size /\ length gn <= GNUTAR_gname_size.
Proof.
  intros H. unfold gnutar_header in H. cbn [fst] in H. unfold gnutar_fields in H. cbv zeta in H. cbn [fst] in H.
  repeat match type of H with
  | pick _ ST_FAILED _ = 0%Z => apply (pick_zero _ _ _ ST_FAILED_nz) in H; let C := fresh "C" in destruct H as [C H]
  end.
  assert (Hw : ST_WARN <> 0%Z) by (unfold ST_WARN, ARCHIVE_WARN; lia).
  apply (pick_zero _ _ _ Hw) in H. destruct H as [Cg H].
  apply (pick_zero _ _ _ Hw) in H. destruct H as [Cu _].
  apply Nat.ltb_ge in Cg. apply Nat.ltb_ge in Cu. split; assumption.
Qed.

(* a field written by gnutar's format_number into a window of w bytes: the bytes, then what is left of the template *)
Lemma gnutar_window : forall o v s mx ws1 ws2 k,
  snd (gnutar_fields name lk un gn e t) = ws1 ++ (o, snd (gnutar_format_number v s mx)) :: ws2 ->
  Forall (away o (length (snd (gnutar_format_number v s mx)))) ws2 ->
  Forall (away (o + length (snd (gnutar_format_number v s mx))) k) (snd (gnutar_fields name lk un gn e t)) ->
  (o + length (snd (gnutar_format_number v s mx)) + k <= GNUTAR_checksum_offset \/ GNUTAR_checksum_offset + 7 <= o) ->
  slice o (length (snd (gnutar_format_number v s mx)) + k) h
  = snd (gnutar_format_number v s mx) ++ slice (o + length (snd (gnutar_format_number v s mx))) k gnutar_template.
Proof.
  intros o v s mx ws1 ws2 k Heq Ha1 Ha2 Ho. subst h. unfold gnutar_header. cbn [snd].
  apply (hdr_field_window _ _ _ GNUTAR_checksum_offset _ _ _ ws1 ws2); try assumption.
  - reflexivity.
  - apply gnutar_fields_inb.
  - apply ck_ok_gnu.
Qed.

Hypothesis Hst : (ST_WARN <= fst (gnutar_header name lk un gn e t))%Z.
Let facts : gnutar_ok_facts := gnutar_ok Hst.

Theorem gnutar_ok_uid : tar_atol (slice R_tar_uid_offset R_tar_uid_size h) = e_uid e.
Proof.
  pose proof (gf_uid facts) as Hok.
  pose proof (gnutar_fn_length_ok _ _ _ Hok) as Hlen.
  assert (Hw : forall k, length (snd (gnutar_format_number (e_uid e) GNUTAR_uid_size GNUTAR_uid_max_size)) + k = 8 ->
            slice GNUTAR_uid_offset (length (snd (gnutar_format_number (e_uid e) GNUTAR_uid_size GNUTAR_uid_max_size)) + k) h
            = snd (gnutar_format_number (e_uid e) GNUTAR_uid_size GNUTAR_uid_max_size)
              ++ slice (GNUTAR_uid_offset + length (snd (gnutar_format_number (e_uid e) GNUTAR_uid_size GNUTAR_uid_max_size))) k gnutar_template).
  { intros k Hk. apply (gnutar_window GNUTAR_uid_offset (e_uid e) GNUTAR_uid_size GNUTAR_uid_max_size (gnu_pre_num ++ [g_mode]) ([g_gid; g_size; g_mtime] ++ g_tail) k).
    - rewrite gnutar_fields_shape. rewrite <- app_assoc. reflexivity.
    - unfold_g. split_forall; try leafg.
    - rewrite gnutar_fields_shape. unfold_g. split_forall; try leafg.
    - leafg. }
  change R_tar_uid_offset with GNUTAR_uid_offset.
  destruct ((0 <=? e_uid e)%Z && (e_uid e <? zpow 8 GNUTAR_uid_size)%Z) eqn:E.
  - replace R_tar_uid_size with (length (snd (gnutar_format_number (e_uid e) GNUTAR_uid_size GNUTAR_uid_max_size)) + 1)
      by (rewrite Hlen; reflexivity).
    rewrite Hw by (rewrite Hlen; reflexivity). rewrite Hlen.
    change (slice (GNUTAR_uid_offset + GNUTAR_uid_size) 1 gnutar_template) with [0%Z].
    apply (gnutar_number_ok_8 (e_uid e) GNUTAR_uid_size [0%Z]); [unfold GNUTAR_uid_size; lia | rewrite E; apply stops_nul | assumption].
  - replace R_tar_uid_size with (length (snd (gnutar_format_number (e_uid e) GNUTAR_uid_size GNUTAR_uid_max_size)) + 0)
      by (rewrite Hlen; reflexivity).
    rewrite Hw by (rewrite Hlen; reflexivity). rewrite Hlen.
    change (slice (GNUTAR_uid_offset + GNUTAR_uid_max_size) 0 gnutar_template) with (@nil Z).
    apply (gnutar_number_ok_8 (e_uid e) GNUTAR_uid_size []); [unfold GNUTAR_uid_size; lia | rewrite E; reflexivity | assumption].
Qed.

Theorem gnutar_ok_gid : tar_atol (slice R_tar_gid_offset R_tar_gid_size h) = e_gid e.
Proof.
  pose proof (gf_gid facts) as Hok.
  pose proof (gnutar_fn_length_ok _ _ _ Hok) as Hlen.
  assert (Hw : forall k, length (snd (gnutar_format_number (e_gid e) GNUTAR_gid_size GNUTAR_gid_max_size)) + k = 8 ->
            slice GNUTAR_gid_offset (length (snd (gnutar_format_number (e_gid e) GNUTAR_gid_size GNUTAR_gid_max_size)) + k) h
            = snd (gnutar_format_number (e_gid e) GNUTAR_gid_size GNUTAR_gid_max_size)
              ++ slice (GNUTAR_gid_offset + length (snd (gnutar_format_number (e_gid e) GNUTAR_gid_size GNUTAR_gid_max_size))) k gnutar_template).
  { intros k Hk. apply (gnutar_window GNUTAR_gid_offset (e_gid e) GNUTAR_gid_size GNUTAR_gid_max_size (gnu_pre_num ++ [g_mode; g_uid]) ([g_size; g_mtime] ++ g_tail) k).
    - rewrite gnutar_fields_shape. rewrite <- app_assoc. reflexivity.
    - unfold_g. split_forall; try leafg.
    - rewrite gnutar_fields_shape. unfold_g. split_forall; try leafg.
    - leafg. }
  change R_tar_gid_offset with GNUTAR_gid_offset.
  destruct ((0 <=? e_gid e)%Z && (e_gid e <? zpow 8 GNUTAR_gid_size)%Z) eqn:E.
  - replace R_tar_gid_size with (length (snd (gnutar_format_number (e_gid e) GNUTAR_gid_size GNUTAR_gid_max_size)) + 1)
      by (rewrite Hlen; reflexivity).
    rewrite Hw by (rewrite Hlen; reflexivity). rewrite Hlen.
    change (slice (GNUTAR_gid_offset + GNUTAR_gid_size) 1 gnutar_template) with [0%Z].
    apply (gnutar_number_ok_8 (e_gid e) GNUTAR_gid_size [0%Z]); [unfold GNUTAR_gid_size; lia | rewrite E; apply stops_nul | assumption].
  - replace R_tar_gid_size with (length (snd (gnutar_format_number (e_gid e) GNUTAR_gid_size GNUTAR_gid_max_size)) + 0)
      by (rewrite Hlen; reflexivity).
    rewrite Hw by (rewrite Hlen; reflexivity). rewrite Hlen.
    change (slice (GNUTAR_gid_offset + GNUTAR_gid_max_size) 0 gnutar_template) with (@nil Z).
    apply (gnutar_number_ok_8 (e_gid e) GNUTAR_gid_size []); [unfold GNUTAR_gid_size; lia | rewrite E; reflexivity | assumption].
Qed.

Theorem gnutar_ok_size : (- two63 <= size_of e < two63)%Z ->
  tar_atol (slice R_tar_size_offset R_tar_size_size h) = size_of e.
Proof.
  intros Hv.
  pose proof (gf_size facts) as Hok.
  pose proof (gnutar_fn_length_ok _ _ _ Hok) as Hlen.
  assert (Hw : forall k, length (snd (gnutar_format_number (size_of e) GNUTAR_size_size GNUTAR_size_max_size)) + k = 12 ->
            slice GNUTAR_size_offset (length (snd (gnutar_format_number (size_of e) GNUTAR_size_size GNUTAR_size_max_size)) + k) h
            = snd (gnutar_format_number (size_of e) GNUTAR_size_size GNUTAR_size_max_size)
              ++ slice (GNUTAR_size_offset + length (snd (gnutar_format_number (size_of e) GNUTAR_size_size GNUTAR_size_max_size))) k gnutar_template).
  { intros k Hk. apply (gnutar_window GNUTAR_size_offset (size_of e) GNUTAR_size_size GNUTAR_size_max_size (gnu_pre_num ++ [g_mode; g_uid; g_gid]) ([g_mtime] ++ g_tail) k).
    - rewrite gnutar_fields_shape. rewrite <- app_assoc. reflexivity.
    - unfold_g. split_forall; try leafg.
    - rewrite gnutar_fields_shape. unfold_g. split_forall; try leafg.
    - leafg. }
  change R_tar_size_offset with GNUTAR_size_offset.
  destruct ((0 <=? size_of e)%Z && (size_of e <? zpow 8 GNUTAR_size_size)%Z) eqn:E.
  - replace R_tar_size_size with (length (snd (gnutar_format_number (size_of e) GNUTAR_size_size GNUTAR_size_max_size)) + 1)
      by (rewrite Hlen; reflexivity).
    rewrite Hw by (rewrite Hlen; reflexivity). rewrite Hlen.
    change (slice (GNUTAR_size_offset + GNUTAR_size_size) 1 gnutar_template) with [0%Z].
    apply (gnutar_number_ok_12 (size_of e) GNUTAR_size_size [0%Z]); [unfold GNUTAR_size_size; lia | assumption | rewrite E; apply stops_nul].
  - replace R_tar_size_size with (length (snd (gnutar_format_number (size_of e) GNUTAR_size_size GNUTAR_size_max_size)) + 0)
      by (rewrite Hlen; reflexivity).
    rewrite Hw by (rewrite Hlen; reflexivity). rewrite Hlen.
    change (slice (GNUTAR_size_offset + GNUTAR_size_max_size) 0 gnutar_template) with (@nil Z).
    apply (gnutar_number_ok_12 (size_of e) GNUTAR_size_size []); [unfold GNUTAR_size_size; lia | assumption | rewrite E; reflexivity].
Qed.

Theorem gnutar_ok_mtime : (- two63 <= e_mtime e < two63)%Z ->
  tar_atol (slice R_tar_mtime_offset R_tar_mtime_size h) = e_mtime e.
Proof.
  intros Hv.
  pose proof (gf_mtime facts) as Hok.
  pose proof (gnutar_fn_length_ok _ _ _ Hok) as Hlen.
  assert (Hw : forall k, length (snd (gnutar_format_number (e_mtime e) GNUTAR_mtime_size GNUTAR_mtime_max_size)) + k = 12 ->
            slice GNUTAR_mtime_offset (length (snd (gnutar_format_number (e_mtime e) GNUTAR_mtime_size GNUTAR_mtime_max_size)) + k) h
            = snd (gnutar_format_number (e_mtime e) GNUTAR_mtime_size GNUTAR_mtime_max_size)
              ++ slice (GNUTAR_mtime_offset + length (snd (gnutar_format_number (e_mtime e) GNUTAR_mtime_size GNUTAR_mtime_max_size))) k gnutar_template).
  { intros k Hk. apply (gnutar_window GNUTAR_mtime_offset (e_mtime e) GNUTAR_mtime_size GNUTAR_mtime_max_size (gnu_pre_num ++ [g_mode; g_uid; g_gid; g_size]) g_tail k).
    - rewrite gnutar_fields_shape. rewrite <- app_assoc. reflexivity.
    - unfold_g. split_forall; try leafg.
    - rewrite gnutar_fields_shape. unfold_g. split_forall; try leafg.
    - leafg. }
  change R_tar_mtime_offset with GNUTAR_mtime_offset.
  destruct ((0 <=? e_mtime e)%Z && (e_mtime e <? zpow 8 GNUTAR_mtime_size)%Z) eqn:E.
  - replace R_tar_mtime_size with (length (snd (gnutar_format_number (e_mtime e) GNUTAR_mtime_size GNUTAR_mtime_max_size)) + 1)
      by (rewrite Hlen; reflexivity).
    rewrite Hw by (rewrite Hlen; reflexivity). rewrite Hlen.
    change (slice (GNUTAR_mtime_offset + GNUTAR_mtime_size) 1 gnutar_template) with [0%Z].
    apply (gnutar_number_ok_12 (e_mtime e) GNUTAR_mtime_size [0%Z]); [unfold GNUTAR_mtime_size; lia | assumption | rewrite E; apply stops_nul].
  - replace R_tar_mtime_size with (length (snd (gnutar_format_number (e_mtime e) GNUTAR_mtime_size GNUTAR_mtime_max_size)) + 0)
      by (rewrite Hlen; reflexivity).
    rewrite Hw by (rewrite Hlen; reflexivity). rewrite Hlen.
    change (slice (GNUTAR_mtime_offset + GNUTAR_mtime_max_size) 0 gnutar_template) with (@nil Z).
    apply (gnutar_number_ok_12 (e_mtime e) GNUTAR_mtime_size []); [unfold GNUTAR_mtime_size; lia | assumption | rewrite E; reflexivity].
Qed.

End GnuOk.

(* gnutar user / group names: status OK means they fit and come back from their zero-padded fields *)
Lemma gnu_uname_region_zero : slice GNUTAR_uname_offset GNUTAR_uname_size gnutar_template = zeros GNUTAR_uname_size.
Proof. reflexivity. Qed.
Lemma gnu_gname_region_zero : slice GNUTAR_gname_offset GNUTAR_gname_size gnutar_template = zeros GNUTAR_gname_size.
Proof. reflexivity. Qed.

Section GnuNames.
Variables name lk un gn : list Z.
Variable e : entry.
Variable t : Z.
Hypothesis Hok : fst (gnutar_header name lk un gn e t) = 0%Z.

Ltac unfold_g2 := unfold gnu_pre_num, g_tail, g_mode, g_uid, g_gid, g_size, g_mtime in *.

Theorem gnutar_ok_uname : no_nul un ->
  cstr (slice R_tar_uname_offset R_tar_uname_size (snd (gnutar_header name lk un gn e t))) = un.
Proof.
  intros Hnn. destruct (gnutar_ok_names name lk un gn e t Hok) as [Hlen _].
  change R_tar_uname_offset with GNUTAR_uname_offset. change R_tar_uname_size with GNUTAR_uname_size.
  unfold gnutar_header. cbn [snd].
  destruct un as [|c r] eqn:Eu.
  - rewrite (hdr_untouched _ _ _ GNUTAR_checksum_offset); [rewrite gnu_uname_region_zero; apply cstr_zeros | reflexivity
      | apply gnutar_fields_inb | apply ck_ok_gnu | | leafg].
    rewrite gnutar_fields_shape. unfold_g2. split_forall; try leafg.
  - rewrite <- Eu in *.
    replace GNUTAR_uname_size with (length un + (GNUTAR_uname_size - length un)) at 1 by lia.
    rewrite (hdr_field_window _ _ _ GNUTAR_checksum_offset GNUTAR_uname_offset un (GNUTAR_uname_size - length un)
               ([(GNUTAR_name_offset, firstn GNUTAR_name_size name)]
                ++ wr_if (0 <? length lk) GNUTAR_linkname_offset (firstn GNUTAR_linkname_size lk))
               (wr_if (0 <? length gn) GNUTAR_gname_offset (firstn GNUTAR_gname_size gn)
                ++ [g_mode e; g_uid e; g_gid e; g_size e; g_mtime e] ++ g_tail e t)).
    + rewrite (slice_of_zero_region _ _ _ _ _ gnu_uname_region_zero) by (unfold GNUTAR_uname_offset; lia).
      apply cstr_app_zeros. assumption.
    + reflexivity.
    + apply gnutar_fields_inb.
    + apply ck_ok_gnu.
    + rewrite gnutar_fields_shape. unfold gnu_pre_num. rewrite (wr_if_nonempty un); [| first [discriminate | rewrite Eu; discriminate] | assumption].
      repeat rewrite <- app_assoc. reflexivity.
    + unfold_g2. split_forall; try leafg.
    + rewrite gnutar_fields_shape. unfold_g2. split_forall; try leafg.
    + leafg.
Qed.

Theorem gnutar_ok_gname : no_nul gn ->
  cstr (slice R_tar_gname_offset R_tar_gname_size (snd (gnutar_header name lk un gn e t))) = gn.
Proof.
  intros Hnn. destruct (gnutar_ok_names name lk un gn e t Hok) as [_ Hlen].
  change R_tar_gname_offset with GNUTAR_gname_offset. change R_tar_gname_size with GNUTAR_gname_size.
  unfold gnutar_header. cbn [snd].
  destruct gn as [|c r] eqn:Eg.
  - rewrite (hdr_untouched _ _ _ GNUTAR_checksum_offset); [rewrite gnu_gname_region_zero; apply cstr_zeros | reflexivity
      | apply gnutar_fields_inb | apply ck_ok_gnu | | leafg].
    rewrite gnutar_fields_shape. unfold_g2. split_forall; try leafg.
  - rewrite <- Eg in *.
    replace GNUTAR_gname_size with (length gn + (GNUTAR_gname_size - length gn)) at 1 by lia.
    rewrite (hdr_field_window _ _ _ GNUTAR_checksum_offset GNUTAR_gname_offset gn (GNUTAR_gname_size - length gn)
               ([(GNUTAR_name_offset, firstn GNUTAR_name_size name)]
                ++ wr_if (0 <? length lk) GNUTAR_linkname_offset (firstn GNUTAR_linkname_size lk)
                ++ wr_if (0 <? length un) GNUTAR_uname_offset (firstn GNUTAR_uname_size un))
               ([g_mode e; g_uid e; g_gid e; g_size e; g_mtime e] ++ g_tail e t)).
    + rewrite (slice_of_zero_region _ _ _ _ _ gnu_gname_region_zero) by (unfold GNUTAR_gname_offset; lia).
      apply cstr_app_zeros. assumption.
    + reflexivity.
    + apply gnutar_fields_inb.
    + apply ck_ok_gnu.
    + rewrite gnutar_fields_shape. unfold gnu_pre_num. rewrite (wr_if_nonempty gn); [| first [discriminate | rewrite Eg; discriminate] | assumption].
      repeat rewrite <- app_assoc. reflexivity.
    + unfold_g2. split_forall; try leafg.
    + rewrite gnutar_fields_shape. unfold_g2. split_forall; try leafg.
    + leafg.
Qed.

End GnuNames.
