(* Whole-archive writer of the byte-level formats: the sequence of archive_write_header /
   archive_write_data* / archive_write_finish_entry calls per entry, then archive_write_close,
   with bytes_per_block = 0 (every byte reaches the client callback unblocked). *)
From Coq Require Import List ZArith Bool.
From LA Require Import Gen.Defines Gen.FmtLayout Fmt.FmtNumDefs Fmt.FmtTarDefs Fmt.FmtCpioDefs Fmt.FmtArDefs.
Import ListNotations.
Local Open Scope Z_scope.

Inductive fmt := Ustar | V7tar | Gnutar | Odc | Newc | Bin | Pwb | ArBsd | ArGnu.

Record wstate := mkWs { ws_cpio : cpio_state; ws_ar : ar_state }.
Definition ws_init : wstate := mkWs cpio_init ar_init.

Definition ar_entry (full gnu : bool) (st : ar_state) (e : entry) : ar_state * ewrite :=
  let '(st, ret, out) := ar_header gnu st e in
  if negb full then (st, mkEw ret out 0 [] 0) else
  let '(st, n, dout) := ar_data_all st (e_body e) in
  let '(fin, fout) := ar_finish st in
  (st, mkEw ret out n (dout ++ fout) fin).

Definition entry_step (full : bool) (f : fmt) (st : wstate) (e : entry) : wstate * ewrite :=
  match f with
  | Ustar => (st, ustar_entry full e)
  | V7tar => (st, v7tar_entry full e)
  | Gnutar => (st, gnutar_entry full e)
  | Odc => let '(c, w) := odc_entry full (ws_cpio st) e in (mkWs c (ws_ar st), w)
  | Newc => (st, newc_entry full e)
  | Bin => let '(c, w) := bin_entry full false (ws_cpio st) e in (mkWs c (ws_ar st), w)
  | Pwb => let '(c, w) := bin_entry full true (ws_cpio st) e in (mkWs c (ws_ar st), w)
  | ArBsd => let '(a, w) := ar_entry full false (ws_ar st) e in (mkWs (ws_cpio st) a, w)
  | ArGnu => let '(a, w) := ar_entry full true (ws_ar st) e in (mkWs (ws_cpio st) a, w)
  end.

Definition close_step (f : fmt) (st : wstate) : Z * list Z :=
  match f with
  | Ustar | V7tar | Gnutar => (ST_OK, tar_trailer)
  | Odc => odc_close (ws_cpio st)
  | Newc => newc_close
  | Bin => bin_close false (ws_cpio st)
  | Pwb => bin_close true (ws_cpio st)
  | ArBsd | ArGnu => ar_close (ws_ar st)
  end.

(* per-entry record of the run: (header status, output length before, after the header call,
   sum of write_data returns, finish_entry status) *)
Record erec := mkRec { r_hdr : Z; r_before : Z; r_after : Z; r_data : Z; r_fin : Z }.

(* stop_after: the client abandons the archive after this entry's header (flag bit 0) *)
Fixpoint run_entries (f : fmt) (st : wstate) (es : list (entry * bool)) (out : list Z)
  : wstate * list erec * list Z * bool :=
  match es with
  | [] => (st, [], out, false)
  | (e, stop_after) :: t =>
      let '(st1, w) := entry_step (negb stop_after) f st e in
      let before := lenZ out in
      let out1 := out ++ w_hdr w in
      if w_status w =? ST_FATAL then (st1, [mkRec (w_status w) before (lenZ out1) 0 0], out1, true)
      else if w_status w <? ST_WARN then
        let '(st2, recs, out2, dead) := run_entries f st1 t out1 in
        (st2, mkRec (w_status w) before (lenZ out1) 0 0 :: recs, out2, dead)
      else if stop_after then (st1, [mkRec (w_status w) before (lenZ out1) 0 0], out1, true)
      else
        let out2 := out1 ++ w_rest w in
        let '(st3, recs, out3, dead) := run_entries f st1 t out2 in
        (st3, mkRec (w_status w) before (lenZ out1) (w_datasum w) (w_fin w) :: recs, out3, dead)
  end.

(* (records, close status, all bytes); close status -1000 = archive abandoned *)
Definition write_archive (f : fmt) (es : list (entry * bool)) : list erec * Z * list Z :=
  let '(st, recs, out, dead) := run_entries f ws_init es [] in
  if dead then (recs, -1000, out)
  else let '(c, cout) := close_step f st in (recs, c, out ++ cout).

(* the archive produced from entries that are all written to the end *)
Definition archive_of (f : fmt) (es : list entry) : list Z :=
  snd (write_archive f (map (fun e => (e, false)) es)).
