(* C11, model side: lengths, zero padding and zero trailers of the byte-level writers. *)
From Coq Require Import List ZArith Bool Lia.
From LA Require Import Gen.Defines Gen.FmtLayout Fmt.FmtNumDefs Fmt.FmtNumProofs Fmt.FmtTarDefs Fmt.FmtBufProofs
  Fmt.FmtTarProofs Fmt.FmtCpioDefs Fmt.FmtCpioProofs Fmt.FmtParseDefs Fmt.FmtParseProofs.
Import ListNotations.
Local Open Scope Z_scope.

Lemma u64_id : forall z, 0 <= z < two64 -> u64 z = z.
Proof. intros. apply u64_small. assumption. Qed.

Lemma pad_to_range : forall m n, 0 < m -> 0 <= pad_to m n < m.
Proof. intros. unfold pad_to. apply Z.mod_pos_bound. assumption. Qed.

Lemma pad_to_aligns : forall m n, 0 < m -> (n + pad_to m n) mod m = 0.
Proof.
  intros m n Hm. unfold pad_to. rewrite Zplus_mod_idemp_r. replace (n + - n) with 0 by lia. apply Z.mod_0_l. lia.
Qed.

(* the bytes of a tar body: the client's data cut at the declared size, then nothing but zeros up to the next
   multiple of 512 *)
Theorem tar_body_shape : forall size chunks, 0 <= size < two64 ->
  snd (tar_body size chunks)
  = firstn (Z.to_nat size) (concat chunks)
    ++ zeros (Z.to_nat (size - Z.min size (lenZ (concat chunks)) + pad_to 512 size)).
Proof.
  intros size chunks Hs. unfold tar_body. rewrite u64_id by assumption.
  destruct (data_chunks_total chunks size ltac:(lia)) as [H1 H2].
  destruct (data_chunks size chunks) as [n out]. cbn [fst snd] in *. subst. reflexivity.
Qed.

Theorem tar_body_aligned : forall size chunks, 0 <= size < two64 ->
  lenZ (snd (tar_body size chunks)) mod 512 = 0.
Proof.
  intros size chunks Hs. rewrite tar_body_shape by assumption.
  unfold lenZ. rewrite app_length, firstn_length, zeros_length.
  pose proof (pad_to_range 512 size ltac:(lia)) as Hp.
  set (total := length (concat chunks)).
  replace (Z.of_nat (Init.Nat.min (Z.to_nat size) total +
                     Z.to_nat (size - Z.min size (Z.of_nat total) + pad_to 512 size)))
    with (size + pad_to 512 size) by lia.
  apply pad_to_aligns. lia.
Qed.

Lemma s32_small : forall z, 0 <= z < 2147483648 -> s32 z = z.
Proof. intros. unfold s32. rewrite Z.mod_small by lia. lia. Qed.

(* cpio newc: header + name + NUL + padding is a multiple of 4, and the padding is zeros (pathnames below 2 GiB,
   where the C code's (int) cast of the length is the identity) *)
Theorem newc_header_aligned : forall e ret out rem,
  newc_write_header e = (ret, out, rem) -> ST_WARN <= ret -> length (sym_of e) = 0%nat ->
  lenZ (ob (e_path e)) < 2147483648 ->
  out = newc_block e ++ ob (e_path e) ++ [0] ++ zeros (Z.to_nat (pad_to 4 (lenZ (ob (e_path e)) + 1 + 110)))
  /\ lenZ out mod 4 = 0.
Proof.
  intros e ret out rem H Hret Hsym Hpl. unfold newc_write_header in H. cbv zeta in H.
  destruct (negb (fst (newc_filesize e) =? 0)).
  - apply tuple3_inv in H. destruct H as [H1 _]. subst ret. st_contra Hret.
  - apply tuple3_inv in H. destruct H as [_ [Hout _]]. subst out. rewrite Hsym. cbn [Nat.ltb Nat.leb].
    unfold pathlength_of. rewrite s32_small by (unfold lenZ in *; lia).
    change (Z.of_nat NEWC_c_header_size) with 110. split; [reflexivity|].
    unfold lenZ in *. rewrite !app_length. rewrite newc_block_length, zeros_length. cbn [length].
    pose proof (pad_to_range 4 (Z.of_nat (length (ob (e_path e))) + 1 + 110) ltac:(lia)) as Hp.
    replace (Z.of_nat (110 + (length (ob (e_path e)) + (1 + Z.to_nat (pad_to 4 (Z.of_nat (length (ob (e_path e))) + 1 + 110))))))
      with ((Z.of_nat (length (ob (e_path e))) + 1 + 110) + pad_to 4 (Z.of_nat (length (ob (e_path e))) + 1 + 110)) by lia.
    apply pad_to_aligns. lia.
Qed.

Lemma zeros_all_zero : forall n, Forall (fun b => b = 0) (zeros n).
Proof. intros. unfold zeros. apply Forall_forall. intros x Hx. apply repeat_spec in Hx. assumption. Qed.

Theorem tar_trailer_zero : Forall (fun b => b = 0) tar_trailer /\ length tar_trailer = 1024%nat.
Proof. split; [apply zeros_all_zero | apply zeros_length]. Qed.
