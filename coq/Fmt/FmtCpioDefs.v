(* cpio writers: archive_write_set_format_cpio_{odc,newc,binary}.c (POSIX branch, default string
   conversion, little-endian host, no allocation failures). *)
From Coq Require Import List ZArith Bool.
From LA Require Import Gen.Defines Gen.FmtLayout Fmt.FmtNumDefs Fmt.FmtTarDefs.
Import ListNotations.
Local Open Scope Z_scope.

(* writer state of odc / binary: ino_next and the ino_list map (old -> new) *)
Record cpio_state := mkCs { ino_next : Z; ino_list : list (Z * Z) }.
Definition cpio_init : cpio_state := mkCs 0 [].

Fixpoint ino_lookup (l : list (Z * Z)) (ino : Z) : option Z :=
  match l with
  | [] => None
  | (o, n) :: t => if o =? ino then Some n else ino_lookup t ino
  end.

(* (int)(++cpio->ino_next) *)
Definition s32 (z : Z) : Z := (z + 2147483648) mod 4294967296 - 2147483648.

Definition synthesize_ino (st : cpio_state) (e : entry) : cpio_state * Z :=
  let ino := e_ino e in
  if ino =? 0 then (st, 0)
  else if e_nlink e <? 2 then
    let n := ino_next st + 1 in (mkCs n (ino_list st), s32 n)
  else match ino_lookup (ino_list st) ino with
       | Some n => (st, n)
       | None => let n := ino_next st + 1 in
                 (mkCs n (ino_list st ++ [(ino, s32 n)]), s32 n)
       end.

Definition trailer_name : list Z := [84; 82; 65; 73; 76; 69; 82; 33; 33; 33].   (* "TRAILER!!!" *)
Definition trailer_entry : entry :=
  mkEntry (Some trailer_name) None None None None 0 0 0 (Some 0) 0 0 0 1 0 [].

(* the checks of archive_write_{odc,binary}_header in front of write_header *)
Definition cpio_precheck (need_size_for_hardlink : bool) (e : entry) : bool :=
  negb ((filetype e =? 0) && negb (is_some (e_hard e)))
  && negb (length (ob (e_path e)) =? 0)%nat
  && ((negb need_size_for_hardlink && is_some (e_hard e))
      || (is_some (e_size e) && (0 <=? size_of e))).

Definition sym_of (e : entry) : list Z := if is_some (e_sym e) then ob (e_sym e) else [].

(* ------------------------------------------------------------------ odc *)
Definition body_size (e : entry) : Z := if filetype e =? IFREG then size_of e else 0.
Definition pathlength_of (e : entry) : Z := s32 (lenZ (ob (e_path e))) + 1.

(* the value stored in the filesize field and the formatter's result for it *)
Definition odc_filesize (e : entry) : Z * list Z :=
  if (0 <? length (sym_of e))%nat then odc_format_octal (lenZ (sym_of e)) ODC_c_filesize_size
  else odc_format_octal (body_size e) ODC_c_filesize_size.

(* the field writes of write_header over the memset-0 block, in the order of the C statements *)
Definition odc_fields (ino : Z) (e : entry) : list wr :=
  [(ODC_c_magic_offset, snd (odc_format_octal 29127 ODC_c_magic_size));
   (ODC_c_dev_offset, snd (odc_format_octal (s64 (e_dev e)) ODC_c_dev_size));
   (ODC_c_ino_offset, snd (odc_format_octal (Z.land ino 262143) ODC_c_ino_size));
   (ODC_c_mode_offset, snd (odc_format_octal (e_mode e) ODC_c_mode_size));
   (ODC_c_uid_offset, snd (odc_format_octal (e_uid e) ODC_c_uid_size));
   (ODC_c_gid_offset, snd (odc_format_octal (e_gid e) ODC_c_gid_size));
   (ODC_c_nlink_offset, snd (odc_format_octal (e_nlink e) ODC_c_nlink_size));
   (ODC_c_rdev_offset, snd (odc_format_octal (if is_dev e then s64 (e_rdev e) else 0) ODC_c_rdev_size));
   (ODC_c_mtime_offset, snd (odc_format_octal (e_mtime e) ODC_c_mtime_size));
   (ODC_c_namesize_offset, snd (odc_format_octal (pathlength_of e) ODC_c_namesize_size));
   (ODC_c_filesize_offset, snd (odc_filesize e))].

Definition odc_block (ino : Z) (e : entry) : list Z := apply_writes (odc_fields ino e) (zeros 76).

(* the overflow results write_header turns into ARCHIVE_WARN (the saturated value is stored) *)
Definition odc_warn (e : entry) : Z :=
  let ret := pick (negb (fst (odc_format_octal (e_uid e) ODC_c_uid_size) =? 0)) ST_WARN ST_OK in
  let ret := pick (negb (fst (odc_format_octal (e_gid e) ODC_c_gid_size) =? 0)) ST_WARN ret in
  let ret := pick (negb (fst (odc_format_octal (e_nlink e) ODC_c_nlink_size) =? 0)) ST_WARN ret in
  let ret := pick (is_dev e && negb (fst (odc_format_octal (s64 (e_rdev e)) ODC_c_rdev_size) =? 0)) ST_WARN ret in
  pick (negb (fst (odc_format_octal (e_mtime e) ODC_c_mtime_size) =? 0)) ST_WARN ret.

(* write_header: (state, status, bytes written by the call, entry_bytes_remaining) *)
Definition odc_write_header (st : cpio_state) (e : entry) : cpio_state * Z * list Z * Z :=
  if 262143 <? lenZ (ob (e_path e)) + 1 then (st, ST_FAILED, [], 0)
  else
  let '(st, ino) := synthesize_ino st e in
  if ino <? 0 then (st, ST_FATAL, [], 0)
  else if 262143 <? ino then (st, ST_FATAL, [], 0)
  else if negb (fst (odc_filesize e) =? 0) then (st, ST_FAILED, [], 0)
  else (st, odc_warn e, odc_block ino e ++ ob (e_path e) ++ [0] ++ sym_of e, body_size e).

Definition odc_entry (full : bool) (st : cpio_state) (e : entry) : cpio_state * ewrite :=
  if negb (cpio_precheck true e) then (st, mkEw ST_FAILED [] 0 [] 0)
  else
    let '(st, ret, out, remaining) := odc_write_header st e in
    if ret <? ST_WARN then (st, mkEw ret [] 0 [] 0)
    else if negb full then (st, mkEw ret out 0 [] 0)
    else
      let rem := u64 remaining in
      let '(n, dout) := data_chunks rem (e_body e) in
      (st, mkEw ret out n (dout ++ zeros (Z.to_nat (rem - n))) 0).

Definition odc_close (st : cpio_state) : Z * list Z :=
  let '(_, ret, out, _) := odc_write_header st trailer_entry in (ret, out).

(* ------------------------------------------------------------------ newc *)
Definition newc_filesize (e : entry) : Z * list Z :=
  if (0 <? length (sym_of e))%nat then newc_format_hex (lenZ (sym_of e)) NEWC_c_filesize_size
  else newc_format_hex (body_size e) NEWC_c_filesize_size.

Definition newc_fields (e : entry) : list wr :=
  [(NEWC_c_magic_offset, snd (newc_format_hex 460545 NEWC_c_magic_size));
   (NEWC_c_devmajor_offset, snd (newc_format_hex (dev_major (e_dev e)) NEWC_c_devmajor_size));
   (NEWC_c_devminor_offset, snd (newc_format_hex (dev_minor (e_dev e)) NEWC_c_devminor_size));
   (NEWC_c_ino_offset, snd (newc_format_hex (Z.land (e_ino e) 4294967295) NEWC_c_ino_size));
   (NEWC_c_mode_offset, snd (newc_format_hex (e_mode e) NEWC_c_mode_size));
   (NEWC_c_uid_offset, snd (newc_format_hex (e_uid e) NEWC_c_uid_size));
   (NEWC_c_gid_offset, snd (newc_format_hex (e_gid e) NEWC_c_gid_size));
   (NEWC_c_nlink_offset, snd (newc_format_hex (e_nlink e) NEWC_c_nlink_size));
   (NEWC_c_rdevmajor_offset, snd (newc_format_hex (if is_dev e then dev_major (e_rdev e) else 0) NEWC_c_rdevmajor_size));
   (NEWC_c_rdevminor_offset, snd (newc_format_hex (if is_dev e then dev_minor (e_rdev e) else 0) NEWC_c_rdevminor_size));
   (NEWC_c_mtime_offset, snd (newc_format_hex (e_mtime e) NEWC_c_mtime_size));
   (NEWC_c_namesize_offset, snd (newc_format_hex (pathlength_of e) NEWC_c_namesize_size));
   (NEWC_c_checksum_offset, snd (newc_format_hex 0 NEWC_c_checksum_size));
   (NEWC_c_filesize_offset, snd (newc_filesize e))].

Definition newc_block (e : entry) : list Z := apply_writes (newc_fields e) (zeros NEWC_c_header_size).

Definition newc_warn (e : entry) : Z :=
  let ret := pick (4294967295 <? e_ino e) ST_WARN ST_OK in
  let ret := pick (negb (fst (newc_format_hex (e_uid e) NEWC_c_uid_size) =? 0)) ST_WARN ret in
  let ret := pick (negb (fst (newc_format_hex (e_gid e) NEWC_c_gid_size) =? 0)) ST_WARN ret in
  pick (negb (fst (newc_format_hex (e_mtime e) NEWC_c_mtime_size) =? 0)) ST_WARN ret.

Definition newc_write_header (e : entry) : Z * list Z * Z :=
  let ret := newc_warn e in
  if negb (fst (newc_filesize e) =? 0) then (ST_FAILED, [], 0)
  else
    let p := sym_of e in
    let out := newc_block e ++ ob (e_path e) ++ [0]
               ++ zeros (Z.to_nat (pad_to 4 (pathlength_of e + Z.of_nat NEWC_c_header_size))) in
    let out := if (0 <? length p)%nat then out ++ p ++ zeros (Z.to_nat (pad_to 4 (lenZ p))) else out in
    (ret, out, body_size e).

Definition newc_entry (full : bool) (e : entry) : ewrite :=
  if negb (cpio_precheck false e) then mkEw ST_FAILED [] 0 [] 0
  else
    let '(ret, out, remaining) := newc_write_header e in
    if ret <? ST_WARN then mkEw ret [] 0 [] 0
    else if negb full then mkEw ret out 0 [] 0
    else
      let rem := u64 remaining in
      let '(n, dout) := data_chunks rem (e_body e) in
      mkEw ret out n (dout ++ zeros (Z.to_nat (rem - n + pad_to 4 rem))) 0.

Definition newc_close : Z * list Z :=
  let '(ret, out, _) := newc_write_header trailer_entry in (ret, out).

(* ------------------------------------------------------------------ binary (bin = 7th edition, pwb) *)
Definition bin_block (ino : Z) (e : entry) : list Z :=
  let p := sym_of e in
  let fsz := if (0 <? length p)%nat then lenZ p else body_size e in
  bin16 29127 ++ bin16 (e_dev e) ++ bin16 ino ++ bin16 (u16 (e_mode e)) ++ bin16 (e_uid e) ++ bin16 (e_gid e)
  ++ bin16 (e_nlink e) ++ (if is_dev e then bin16 (e_rdev e) else [0; 0])
  ++ bin32 (e_mtime e) ++ bin16 (pathlength_of e) ++ bin32 fsz.

Definition bin_warn (e : entry) : Z :=
  let ret := pick (65535 <? e_uid e) ST_WARN ST_OK in
  let ret := pick (65535 <? e_gid e) ST_WARN ret in
  let ret := pick (65535 <? e_nlink e) ST_WARN ret in
  let ret := pick (is_dev e && (65535 <? u64 (e_rdev e))) ST_WARN ret in
  pick ((e_mtime e <? 0) || (4294967295 <? e_mtime e)) ST_WARN ret.

Definition bin_write_header (pwb : bool) (st : cpio_state) (e : entry) : cpio_state * Z * list Z * Z :=
  if 65535 <? lenZ (ob (e_path e)) + 1 then (st, ST_FAILED, [], 0)
  else
  let '(st, ino) := synthesize_ino st e in
  if ino <? 0 then (st, ST_FATAL, [], 0)
  else if 32767 <? ino then (st, ST_FATAL, [], 0)
  else
  let hft := Z.land (u16 (e_mode e)) IFMT in
  if (hft =? IFSOCK) || (hft =? IFIFO) then (st, ST_FATAL, [], 0)
  else if pwb && (hft =? IFLNK) then (st, ST_FATAL, [], 0)
  else
  let size := body_size e in
  let p := sym_of e in
  if (0 <? length p)%nat && pwb then (st, ST_FATAL, [], 0)
  else if negb (0 <? length p)%nat && pwb && (16777215 <? size) then (st, ST_FAILED, [], 0)
  else if negb (0 <? length p)%nat && (2147483647 <? size) then (st, ST_FAILED, [], 0)
  else
  let out := bin_block ino e ++ ob (e_path e) ++ [0] ++ (if Z.odd (pathlength_of e) then [0] else []) in
  let out := if (0 <? length p)%nat then out ++ p ++ (if Z.odd (lenZ p) then [0] else []) else out in
  (st, bin_warn e, out, if Z.odd size then size + 1 else size).

Definition bin_entry (full pwb : bool) (st : cpio_state) (e : entry) : cpio_state * ewrite :=
  if negb (cpio_precheck true e) then (st, mkEw ST_FAILED [] 0 [] 0)
  else
    let '(st, ret, out, remaining) := bin_write_header pwb st e in
    if ret <? ST_WARN then (st, mkEw ret [] 0 [] 0)
    else if negb full then (st, mkEw ret out 0 [] 0)
    else
      let rem := u64 remaining in
      let '(n, dout) := data_chunks rem (e_body e) in
      (st, mkEw ret out n (dout ++ zeros (Z.to_nat (rem - n))) 0).

Definition bin_close (pwb : bool) (st : cpio_state) : Z * list Z :=
  let '(_, ret, out, _) := bin_write_header pwb st trailer_entry in (ret, out).
