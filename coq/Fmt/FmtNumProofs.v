(* Inverse lemmas of the numeric field codecs (FmtNumDefs.v) with their exact width guards. *)
From Coq Require Import List ZArith Bool Lia.
From LA Require Import Fmt.FmtNumDefs.
Import ListNotations.
Local Open Scope Z_scope.

(* ------------------------------------------------------------------ digits *)
Lemma digits_le_length : forall b w v, length (digits_le b w v) = w.
Proof. induction w; intros; cbn [digits_le length]; auto. Qed.

Lemma digits_be_length : forall b w v, length (digits_be b w v) = w.
Proof. intros. unfold digits_be. rewrite rev_length. apply digits_le_length. Qed.

Fixpoint dec_le (b : Z) (ds : list Z) : Z :=
  match ds with [] => 0 | d :: t => d + b * dec_le b t end.

Lemma zpow_S : forall b n, zpow b (S n) = b * zpow b n.
Proof. intros. unfold zpow. rewrite Nat2Z.inj_succ. rewrite Z.pow_succ_r by lia. reflexivity. Qed.

Lemma zpow_0 : forall b, zpow b 0 = 1.
Proof. reflexivity. Qed.

Lemma zpow_pos : forall b n, 0 < b -> 0 < zpow b n.
Proof. intros. unfold zpow. apply Z.pow_pos_nonneg; lia. Qed.

Lemma dec_le_digits_le : forall b w v, 0 < b -> dec_le b (digits_le b w v) = v mod zpow b w.
Proof.
  induction w; intros v Hb.
  - cbn [digits_le dec_le]. rewrite zpow_0. rewrite Z.mod_1_r. reflexivity.
  - cbn [digits_le dec_le]. rewrite IHw by assumption. rewrite zpow_S.
    rewrite Z.rem_mul_r; [reflexivity | lia | apply zpow_pos; assumption].
Qed.

Lemma digits_le_range : forall b w v, 0 < b -> Forall (fun d => 0 <= d < b) (digits_le b w v).
Proof.
  induction w; intros; cbn [digits_le]; constructor.
  - apply Z.mod_pos_bound. assumption.
  - apply IHw. assumption.
Qed.

Lemma digits_be_range : forall b w v, 0 < b -> Forall (fun d => 0 <= d < b) (digits_be b w v).
Proof.
  intros. unfold digits_be. apply Forall_rev. apply digits_le_range. assumption.
Qed.

(* value of a big-endian digit string read left to right from accumulator a *)
Definition be_fold (b : Z) (ds : list Z) (a : Z) : Z := fold_left (fun acc d => acc * b + d) ds a.

Lemma be_fold_app : forall b l1 l2 a, be_fold b (l1 ++ l2) a = be_fold b l2 (be_fold b l1 a).
Proof. intros. unfold be_fold. apply fold_left_app. Qed.

Lemma be_fold_rev : forall b l, be_fold b (rev l) 0 = dec_le b l.
Proof.
  induction l; cbn [rev dec_le].
  - reflexivity.
  - rewrite be_fold_app. rewrite IHl. unfold be_fold. cbn [fold_left]. lia.
Qed.

Lemma be_fold_digits_be : forall b w v, 0 < b -> be_fold b (digits_be b w v) 0 = v mod zpow b w.
Proof. intros. unfold digits_be. rewrite be_fold_rev. apply dec_le_digits_le. assumption. Qed.

Lemma be_fold_digits_be_small : forall b w v, 0 < b -> 0 <= v < zpow b w -> be_fold b (digits_be b w v) 0 = v.
Proof. intros. rewrite be_fold_digits_be by assumption. apply Z.mod_small. assumption. Qed.

Lemma be_fold_acc : forall b ds a, be_fold b ds a = a * zpow b (length ds) + be_fold b ds 0.
Proof.
  induction ds; intros a0.
  - cbn. unfold zpow. cbn. lia.
  - unfold be_fold in *. cbn [fold_left length]. rewrite IHds. rewrite (IHds (0 * b + a)). rewrite zpow_S. lia.
Qed.

Lemma be_fold_mono : forall b ds a, 1 <= b -> 0 <= a -> Forall (fun d => 0 <= d) ds -> a <= be_fold b ds a.
Proof.
  induction ds; intros a0 Hb Ha HF.
  - cbn. lia.
  - inversion HF; subst. unfold be_fold in *. cbn [fold_left].
    assert (a0 <= a0 * b + a) by nia.
    specialize (IHds (a0 * b + a) Hb ltac:(nia) H2). lia.
Qed.

Lemma Forall_weaken_nonneg : forall b ds, Forall (fun d => 0 <= d < b) ds -> Forall (fun d : Z => 0 <= d) ds.
Proof. intros. eapply Forall_impl; [|eassumption]. cbn. intros; lia. Qed.

(* the most significant digit first *)
Lemma digits_le_snoc : forall b w v, 0 < b -> digits_le b (S w) v = digits_le b w v ++ [(v / zpow b w) mod b].
Proof.
  induction w; intros v Hb.
  - cbn [digits_le app]. rewrite zpow_0. rewrite Z.div_1_r. reflexivity.
  - change (digits_le b (S (S w)) v) with ((v mod b) :: digits_le b (S w) (v / b)).
    rewrite IHw by assumption. cbn [digits_le app]. f_equal. f_equal. f_equal. f_equal.
    rewrite zpow_S. rewrite Z.div_div; [reflexivity | lia | apply zpow_pos; assumption].
Qed.

Lemma digits_be_cons : forall b w v, 0 < b -> digits_be b (S w) v = ((v / zpow b w) mod b) :: digits_be b w v.
Proof.
  intros. unfold digits_be. rewrite digits_le_snoc by assumption. rewrite rev_app_distr. reflexivity.
Qed.

(* ------------------------------------------------------------------ tar_atol8 on an octal field *)
Definition enc (ds : list Z) : list Z := map (fun d => 48 + d) ds.

Definition stops (base : Z) (rest : list Z) : Prop :=
  match rest with [] => True | c :: _ => ~ (0 <= c - 48 < base) end.

Lemma atol_digits_enc : forall base limit ldl ds rest l,
  1 <= base -> 0 <= l ->
  Forall (fun d => 0 <= d < base) ds -> stops base rest ->
  be_fold base ds l < limit ->
  atol_digits base limit ldl (enc ds ++ rest) l = Some (be_fold base ds l).
Proof.
  induction ds; intros rest l Hb Hl HF Hs Hlim.
  - cbn [enc map app be_fold fold_left]. destruct rest as [|c t]; cbn [atol_digits]; [reflexivity|].
    cbn in Hs. destruct ((0 <=? c - 48) && (c - 48 <? base)) eqn:E; [|reflexivity].
    apply andb_true_iff in E. destruct E as [E1 E2]. apply Z.leb_le in E1. apply Z.ltb_lt in E2. exfalso; apply Hs; lia.
  - inversion HF; subst. cbn [enc map app atol_digits].
    replace (48 + a - 48) with a by lia.
    replace ((0 <=? a) && (a <? base)) with true
      by (symmetry; apply andb_true_iff; split; [apply Z.leb_le | apply Z.ltb_lt]; lia).
    unfold be_fold in Hlim. cbn [fold_left] in Hlim. fold (be_fold base ds (l * base + a)) in Hlim.
    assert (Hm : l * base + a <= be_fold base ds (l * base + a)).
    { apply be_fold_mono; [lia | nia | eapply Forall_weaken_nonneg; eassumption]. }
    assert (l <= l * base + a) by nia.
    replace ((limit <? l) || ((l =? limit) && (ldl <=? a))) with false.
    + fold (enc ds). rewrite IHds; try assumption; try nia. reflexivity.
    + symmetry. apply orb_false_iff. split; [apply Z.ltb_ge; lia|].
      apply andb_false_iff. left. apply Z.eqb_neq. lia.
Qed.

Lemma skip_ws_digit : forall d rest, 0 <= d < 10 -> skip_ws ((48 + d) :: rest) = (48 + d) :: rest.
Proof.
  intros. cbn [skip_ws]. unfold is_ws.
  replace (48 + d =? 32) with false by (symmetry; apply Z.eqb_neq; lia).
  replace (48 + d =? 9) with false by (symmetry; apply Z.eqb_neq; lia). reflexivity.
Qed.

(* an octal field of w digits followed by its terminator (or by nothing) decodes to the value *)
Theorem octal_roundtrip_tar : forall w v rest,
  (0 < w)%nat -> 0 <= v < zpow 8 w -> v < 1152921504606846975 -> stops 8 rest ->
  tar_atol8 (enc (digits_be 8 w v) ++ rest) = v.
Proof.
  intros w v rest Hw Hv Hlim Hs. unfold tar_atol8, tar_atol_base_n.
  destruct w as [|w]; [lia|].
  assert (Hall : atol_pos (enc (digits_be 8 (S w) v) ++ rest) 8 = v).
  { unfold atol_pos. rewrite atol_digits_enc; try lia; try assumption.
    - rewrite be_fold_digits_be_small by lia. reflexivity.
    - apply digits_be_range. lia.
    - rewrite be_fold_digits_be_small by lia. change (Z.quot INT64_MAX 8) with 1152921504606846975. lia. }
  rewrite digits_be_cons in * by lia. cbn [enc map app] in *.
  set (d := (v / zpow 8 w) mod 8) in *.
  assert (Hd : 0 <= d < 8) by (apply Z.mod_pos_bound; lia).
  rewrite skip_ws_digit by lia.
  replace (48 + d =? 45) with false by (symmetry; apply Z.eqb_neq; lia).
  exact Hall.
Qed.

(* ------------------------------------------------------------------ the octal writers *)
Lemma enc_length : forall ds, length (enc ds) = length ds.
Proof. intros. unfold enc. apply map_length. Qed.

Lemma div_zero_small : forall v m, 0 < m -> 0 <= v -> v / m = 0 -> v < m.
Proof. intros v m Hm Hv H. apply Z.div_small_iff in H; lia. Qed.

Lemma ustar_format_octal_ok : forall v s,
  fst (ustar_format_octal v s) = 0 ->
  0 <= v < zpow 8 s /\ snd (ustar_format_octal v s) = enc (digits_be 8 s v).
Proof.
  intros v s. unfold ustar_format_octal.
  destruct (v <? 0) eqn:E1; cbn [fst snd]; [lia|].
  destruct (v / zpow 8 s =? 0) eqn:E2; cbn [fst snd]; [|lia].
  intros _. apply Z.ltb_ge in E1. apply Z.eqb_eq in E2.
  split; [|reflexivity]. split; [assumption|]. apply div_zero_small; try assumption. apply zpow_pos; lia.
Qed.

Lemma ustar_format_octal_length : forall v s, length (snd (ustar_format_octal v s)) = s.
Proof.
  intros. unfold ustar_format_octal.
  destruct (v <? 0); cbn [snd]; [apply repeat_length|].
  destruct (v / zpow 8 s =? 0); cbn [snd]; [|apply repeat_length].
  rewrite map_length. apply digits_be_length.
Qed.

Lemma ustar_format_octal_fails : forall v s, ~ (0 <= v < zpow 8 s) -> fst (ustar_format_octal v s) = -1.
Proof.
  intros v s H. unfold ustar_format_octal.
  destruct (v <? 0) eqn:E1; [reflexivity|].
  destruct (v / zpow 8 s =? 0) eqn:E2; [|reflexivity].
  exfalso. apply H. apply Z.ltb_ge in E1. apply Z.eqb_eq in E2. split; [assumption|].
  apply div_zero_small; try assumption. apply zpow_pos; lia.
Qed.

(* strict ustar / v7tar: success means the field decodes to the value *)
Theorem ustar_strict_exact : forall v s mx rest,
  (0 < s <= 19)%nat -> stops 8 rest ->
  fst (ustar_format_number v s mx true) = 0 ->
  tar_atol (snd (ustar_format_number v s mx true) ++ rest) = v.
Proof.
  intros v s mx rest Hs Hst H. unfold ustar_format_number in *.
  apply ustar_format_octal_ok in H. destruct H as [Hv Hb]. rewrite Hb.
  assert (Hp : zpow 8 s <= zpow 8 19).
  { unfold zpow. apply Z.pow_le_mono_r; lia. }
  change (zpow 8 19) with 144115188075855872 in Hp.
  assert (Hoct : tar_atol8 (enc (digits_be 8 s v) ++ rest) = v) by (apply octal_roundtrip_tar; try lia; assumption).
  unfold tar_atol. destruct s as [|s]; [lia|].
  rewrite digits_be_cons in * by lia. cbn [enc map app] in *.
  assert (Hd : 0 <= (v / zpow 8 s) mod 8 < 8) by (apply Z.mod_pos_bound; lia).
  replace (128 <=? 48 + (v / zpow 8 s) mod 8) with false by (symmetry; apply Z.leb_gt; lia).
  exact Hoct.
Qed.

(* gnutar's octal writer: negative values are stored as 0 and reported as success *)
Lemma gnutar_format_octal_ok : forall v s,
  fst (gnutar_format_octal v s) = 0 ->
  let v' := if v <? 0 then 0 else v in
  0 <= v' < zpow 8 s /\ snd (gnutar_format_octal v s) = enc (digits_be 8 s v').
Proof.
  intros v s. unfold gnutar_format_octal. cbv zeta.
  set (v' := if v <? 0 then 0 else v).
  assert (0 <= v') by (unfold v'; destruct (v <? 0) eqn:E; [lia | apply Z.ltb_ge in E; lia]).
  destruct (v' / zpow 8 s =? 0) eqn:E2; cbn [fst snd]; [|lia].
  intros _. apply Z.eqb_eq in E2. split; [|reflexivity]. split; [assumption|].
  apply div_zero_small; try assumption. apply zpow_pos; lia.
Qed.

(* ------------------------------------------------------------------ base-256 *)
Lemma s64_u64 : forall x, s64 (u64 x) = s64 x.
Proof. intros. unfold s64, u64. rewrite Zplus_mod_idemp_l. reflexivity. Qed.

Lemma s64_small : forall x, - two63 <= x < two63 -> s64 x = x.
Proof. intros. unfold s64, two64, two63 in *. rewrite Z.mod_small; lia. Qed.

Lemma u64_small : forall x, 0 <= x < two64 -> u64 x = x.
Proof. intros. unfold u64. apply Z.mod_small. assumption. Qed.

Lemma u64_be_fold : forall xs a, u64 (be_fold 256 xs (u64 a)) = u64 (be_fold 256 xs a).
Proof.
  intros. rewrite (be_fold_acc 256 xs (u64 a)). rewrite (be_fold_acc 256 xs a).
  unfold u64. rewrite Zplus_mod. rewrite Zmult_mod_idemp_l. rewrite <- Zplus_mod. reflexivity.
Qed.

Lemma fold_u64 : forall xs l0,
  fold_left (fun l x => u64 (l * 256 + x)) xs l0 = if (0 <? length xs)%nat then u64 (be_fold 256 xs l0) else l0.
Proof.
  induction xs; intros l0.
  - reflexivity.
  - cbn [fold_left length]. rewrite IHxs. replace (0 <? S (length xs))%nat with true by reflexivity.
    destruct xs as [|y ys].
    + cbn [length Nat.ltb Nat.leb be_fold fold_left]. reflexivity.
    + replace (0 <? length (y :: ys))%nat with true by reflexivity.
      rewrite u64_be_fold. unfold be_fold. cbn [fold_left]. reflexivity.
Qed.

Lemma format_256_8 : forall v,
  snd (format_256 v 8) = (((v / 72057594037927936) mod 256) mod 128 + 128) :: digits_be 256 7 v.
Proof.
  intros. unfold format_256. rewrite digits_be_cons by lia. cbn [snd]. reflexivity.
Qed.

(* 8-byte base-256 field (uid, gid, device numbers): exact on [-2^62, 2^62) *)
Theorem base256_roundtrip_8 : forall v,
  - 4611686018427387904 <= v < 4611686018427387904 ->
  tar_atol (snd (format_256 v 8)) = v.
Proof.
  intros v Hv. rewrite format_256_8.
  set (b0 := (v / 72057594037927936) mod 256).
  set (t := digits_be 256 7 v).
  assert (Hlen : length t = 7%nat) by apply digits_be_length.
  assert (Hval : be_fold 256 (b0 :: t) 0 = v mod two64).
  { unfold b0, t. change 72057594037927936 with (zpow 256 7). rewrite <- digits_be_cons by lia.
    rewrite be_fold_digits_be by lia. reflexivity. }
  unfold tar_atol.
  assert (Hm : 0 <= b0 mod 128 < 128) by (apply Z.mod_pos_bound; lia).
  replace (128 <=? b0 mod 128 + 128) with true by (symmetry; apply Z.leb_le; lia).
  unfold tar_atol256. cbn [length]. rewrite Hlen. cbn [Nat.sub a256_skip].
  replace ((b0 mod 128 + 128) mod 128) with (b0 mod 128)
    by (rewrite <- Zplus_mod_idemp_r; rewrite Z.mod_same by lia; rewrite Z.add_0_r; rewrite Z.mod_mod by lia; reflexivity).
  destruct (Z_lt_le_dec v 0) as [Hneg|Hpos].
  - (* negative *)
    assert (Hb0 : 192 <= b0 < 256).
    { unfold b0. assert (-64 <= v / 72057594037927936 < 0) by (Z.div_mod_to_equations; lia).
      Z.div_mod_to_equations; lia. }
    assert (Hm2 : b0 mod 128 = b0 - 128) by (Z.div_mod_to_equations; lia).
    rewrite Hm2. replace (64 <=? b0 - 128) with true by (symmetry; apply Z.leb_le; lia).
    replace (b0 - 128 + 128) with b0 by lia.
    replace (128 <=? b0) with true by (symmetry; apply Z.leb_le; lia). cbn [Bool.eqb negb].
    rewrite fold_u64. replace (0 <? length (b0 :: t))%nat with true by reflexivity.
    rewrite (be_fold_acc 256 (b0 :: t) UINT64_MAX). rewrite Hval. cbn [length]. rewrite Hlen.
    change (zpow 256 8) with two64.
    unfold u64. rewrite Z.add_comm. rewrite Z.mod_add by (unfold two64; lia). rewrite Z.mod_mod by (unfold two64; lia).
    fold (u64 v). rewrite s64_u64. apply s64_small. unfold two63. lia.
  - (* non-negative *)
    assert (Hb0 : 0 <= b0 < 64).
    { unfold b0. assert (0 <= v / 72057594037927936 < 64) by (Z.div_mod_to_equations; lia).
      Z.div_mod_to_equations; lia. }
    assert (Hm2 : b0 mod 128 = b0) by (apply Z.mod_small; lia).
    rewrite Hm2. replace (64 <=? b0) with false by (symmetry; apply Z.leb_gt; lia).
    replace (128 <=? b0) with false by (symmetry; apply Z.leb_gt; lia). cbn [Bool.eqb negb].
    rewrite fold_u64. replace (0 <? length (b0 :: t))%nat with true by reflexivity.
    rewrite Hval. fold (u64 v). rewrite (u64_small (u64 v)) by (unfold u64, two64; apply Z.mod_pos_bound; lia).
    rewrite s64_u64. apply s64_small. unfold two63. lia.
Qed.

Lemma format_256_length : forall v s, length (snd (format_256 v s)) = s.
Proof.
  intros. unfold format_256. pose proof (digits_be_length 256 s v) as H.
  destruct (digits_be 256 s v); cbn [snd length] in *; assumption.
Qed.

(* 12-byte base-256 field (size): exact for every non-negative int64 *)
Theorem base256_roundtrip_12 : forall v,
  0 <= v < two63 -> tar_atol (snd (format_256 v 12)) = v.
Proof.
  intros v Hv. unfold two63 in Hv. unfold format_256.
  assert (Hz : forall k, (k >= 8)%nat -> (v / zpow 256 k) mod 256 = 0).
  { intros k Hk. assert (zpow 256 8 <= zpow 256 k) by (unfold zpow; apply Z.pow_le_mono_r; lia).
    change (zpow 256 8) with 18446744073709551616 in H.
    rewrite Z.div_small by lia. reflexivity. }
  rewrite (digits_be_cons 256 11) by lia. rewrite (digits_be_cons 256 10) by lia.
  rewrite (digits_be_cons 256 9) by lia. rewrite (digits_be_cons 256 8) by lia.
  rewrite !Hz by lia. cbn [snd].
  set (t := digits_be 256 8 v).
  assert (Hlen : length t = 8%nat) by apply digits_be_length.
  assert (Hval : be_fold 256 t 0 = v).
  { unfold t. rewrite be_fold_digits_be_small by (change (zpow 256 8) with 18446744073709551616; lia). reflexivity. }
  unfold t in *. rewrite (digits_be_cons 256 7) in * by lia.
  set (b0 := (v / zpow 256 7) mod 256) in *. set (t7 := digits_be 256 7 v) in *.
  assert (Hb0 : 0 <= b0 < 128).
  { unfold b0. change (zpow 256 7) with 72057594037927936. Z.div_mod_to_equations; lia. }
  change (0 mod 128 + 128) with 128.
  unfold tar_atol. change (128 <=? 128) with true.
  unfold tar_atol256. cbn [length] in *.
  assert (Hl7 : length t7 = 7%nat) by lia. rewrite Hl7.
  change (128 mod 128) with 0. change (64 <=? 0) with false. cbv iota.
  cbn [Nat.sub a256_skip]. change (0 =? 0) with true. cbv iota.
  replace (128 <=? b0) with false by (symmetry; apply Z.leb_gt; lia). cbn [Bool.eqb negb].
  rewrite fold_u64. replace (0 <? length (b0 :: t7))%nat with true by reflexivity.
  rewrite Hval. rewrite u64_small by (unfold two64; lia). apply s64_small. unfold two63. lia.
Qed.

(* 12-byte base-256 field: exact for negative int64 values too *)
Theorem base256_roundtrip_12_neg : forall v,
  - two63 <= v < 0 -> tar_atol (snd (format_256 v 12)) = v.
Proof.
  intros v Hv. unfold two63 in Hv. unfold format_256.
  assert (Hz : forall k, (8 <= k <= 11)%nat -> (v / zpow 256 k) mod 256 = 255).
  { intros k Hk.
    assert (Hq : v / zpow 256 k = -1).
    { assert (zpow 256 8 <= zpow 256 k) by (unfold zpow; apply Z.pow_le_mono_r; lia).
      change (zpow 256 8) with 18446744073709551616 in H.
      assert (0 < zpow 256 k) by (apply zpow_pos; lia).
      symmetry. apply Z.div_unique with (r := v + zpow 256 k); lia. }
    rewrite Hq. reflexivity. }
  rewrite (digits_be_cons 256 11) by lia. rewrite (digits_be_cons 256 10) by lia.
  rewrite (digits_be_cons 256 9) by lia. rewrite (digits_be_cons 256 8) by lia.
  rewrite !Hz by lia. cbn [snd].
  set (t := digits_be 256 8 v).
  assert (Hlen : length t = 8%nat) by apply digits_be_length.
  assert (Hval : be_fold 256 t 0 = v mod two64).
  { unfold t. rewrite be_fold_digits_be by lia. reflexivity. }
  unfold t in *. rewrite (digits_be_cons 256 7) in * by lia.
  set (b0 := (v / zpow 256 7) mod 256) in *. set (t7 := digits_be 256 7 v) in *.
  assert (Hb0 : 128 <= b0 < 256).
  { unfold b0. change (zpow 256 7) with 72057594037927936. Z.div_mod_to_equations; lia. }
  change (255 mod 128 + 128) with 255.
  unfold tar_atol. change (128 <=? 255) with true.
  unfold tar_atol256. cbn [length] in *.
  assert (Hl7 : length t7 = 7%nat) by lia. rewrite Hl7.
  change (255 mod 128) with 127. change (64 <=? 127) with true. cbv iota.
  change (127 + 128) with 255.
  cbn [Nat.sub a256_skip]. change (255 =? 255) with true. cbv iota.
  replace (128 <=? b0) with true by (symmetry; apply Z.leb_le; lia). cbn [Bool.eqb negb].
  rewrite fold_u64. replace (0 <? length (b0 :: t7))%nat with true by reflexivity.
  rewrite (be_fold_acc 256 (b0 :: t7) UINT64_MAX). rewrite Hval. cbn [length]. rewrite Hl7.
  change (zpow 256 8) with two64.
  unfold u64. rewrite Z.add_comm. rewrite Z.mod_add by (unfold two64; lia). rewrite Z.mod_mod by (unfold two64; lia).
  fold (u64 v). rewrite s64_u64. apply s64_small. unfold two63. lia.
Qed.

Theorem base256_roundtrip_12_all : forall v, - two63 <= v < two63 -> tar_atol (snd (format_256 v 12)) = v.
Proof.
  intros v Hv. destruct (Z_lt_le_dec v 0).
  - apply base256_roundtrip_12_neg. lia.
  - apply base256_roundtrip_12. lia.
Qed.

(* gnutar's format_number: a zero result means the window decodes to the value.
   8-byte window (uid, gid): octal in [0, 8^s), base-256 on the rest of [-2^62, 2^62), refused outside. *)
Lemma gnutar_format_256_ok_8 : forall v, fst (gnutar_format_256 v 8) = 0 ->
  - 4611686018427387904 <= v < 4611686018427387904 /\ snd (gnutar_format_256 v 8) = snd (format_256 v 8).
Proof.
  intros v. unfold gnutar_format_256. change (8 <? 9)%nat with true. change (2 ^ (8 * Z.of_nat 8 - 2)) with 4611686018427387904.
  cbn [andb].
  match goal with |- context [if ?c then _ else _] => destruct c eqn:E end; cbn [fst snd]; [intros H; exfalso; lia|].
  intros _. apply orb_false_iff in E. destruct E as [E1 E2]. apply Z.leb_gt in E1. apply Z.ltb_ge in E2. split; [lia | reflexivity].
Qed.

Lemma gnutar_octal_branch : forall v s rest, (0 < s <= 12)%nat -> 0 <= v < zpow 8 s -> stops 8 rest ->
  fst (gnutar_format_octal v s) = 0 /\ tar_atol (snd (gnutar_format_octal v s) ++ rest) = v.
Proof.
  intros v s rest Hs Hv Hst.
  assert (Hf : fst (gnutar_format_octal v s) = 0).
  { unfold gnutar_format_octal. replace (v <? 0) with false by (symmetry; apply Z.ltb_ge; lia).
    rewrite Z.div_small by lia. reflexivity. }
  split; [assumption|].
  pose proof (gnutar_format_octal_ok v s Hf) as Hok. cbv zeta in Hok.
  replace (v <? 0) with false in Hok by (symmetry; apply Z.ltb_ge; lia).
  destruct Hok as [_ Hb]. rewrite Hb.
  assert (Hp : zpow 8 s <= zpow 8 12) by (unfold zpow; apply Z.pow_le_mono_r; lia).
  change (zpow 8 12) with 68719476736 in Hp.
  assert (Hoct : tar_atol8 (enc (digits_be 8 s v) ++ rest) = v) by (apply octal_roundtrip_tar; try lia; assumption).
  unfold tar_atol. destruct s as [|s]; [lia|].
  rewrite digits_be_cons in * by lia. cbn [enc map app] in *.
  assert (Hd : 0 <= (v / zpow 8 s) mod 8 < 8) by (apply Z.mod_pos_bound; lia).
  replace (128 <=? 48 + (v / zpow 8 s) mod 8) with false by (symmetry; apply Z.leb_gt; lia).
  exact Hoct.
Qed.

Theorem gnutar_number_ok_8 : forall v s rest,
  (0 < s <= 8)%nat ->
  (if (0 <=? v) && (v <? zpow 8 s) then stops 8 rest else rest = []) ->
  fst (gnutar_format_number v s 8) = 0 ->
  tar_atol (snd (gnutar_format_number v s 8) ++ rest) = v.
Proof.
  intros v s rest Hs Hrest. unfold gnutar_format_number.
  destruct ((0 <=? v) && (v <? zpow 8 s)) eqn:E.
  - apply andb_true_iff in E. destruct E as [E1 E2]. apply Z.leb_le in E1. apply Z.ltb_lt in E2. intros _.
    apply gnutar_octal_branch; try lia; assumption.
  - intros H. subst rest. rewrite app_nil_r. apply gnutar_format_256_ok_8 in H. destruct H as [Hv Hb].
    rewrite Hb. apply base256_roundtrip_8. assumption.
Qed.

(* 12-byte window (size, mtime): every int64 is representable *)
Theorem gnutar_number_ok_12 : forall v s rest,
  (0 < s <= 12)%nat -> - two63 <= v < two63 ->
  (if (0 <=? v) && (v <? zpow 8 s) then stops 8 rest else rest = []) ->
  fst (gnutar_format_number v s 12) = 0 /\ tar_atol (snd (gnutar_format_number v s 12) ++ rest) = v.
Proof.
  intros v s rest Hs Hv Hrest. unfold gnutar_format_number.
  destruct ((0 <=? v) && (v <? zpow 8 s)) eqn:E.
  - apply andb_true_iff in E. destruct E as [E1 E2]. apply Z.leb_le in E1. apply Z.ltb_lt in E2.
    apply gnutar_octal_branch; try lia; assumption.
  - subst rest. rewrite app_nil_r. unfold gnutar_format_256. change (12 <? 9)%nat with false. cbn [andb].
    split; [reflexivity|]. apply base256_roundtrip_12_all. assumption.
Qed.

(* and a uid or gid outside [-2^62, 2^62) is refused by the formatter *)
Theorem gnutar_number_refuses_8 : forall v s, (0 < s <= 8)%nat ->
  ~ (- 4611686018427387904 <= v < 4611686018427387904) -> fst (gnutar_format_number v s 8) = -1.
Proof.
  intros v s Hs Hv. unfold gnutar_format_number.
  assert (zpow 8 s <= zpow 8 8) by (unfold zpow; apply Z.pow_le_mono_r; lia).
  change (zpow 8 8) with 16777216 in H.
  destruct ((0 <=? v) && (v <? zpow 8 s)) eqn:E.
  - apply andb_true_iff in E. destruct E as [E1 E2]. apply Z.leb_le in E1. apply Z.ltb_lt in E2. lia.
  - unfold gnutar_format_256. change (8 <? 9)%nat with true. change (2 ^ (8 * Z.of_nat 8 - 2)) with 4611686018427387904.
    cbn [andb].
    match goal with |- context [if ?c then _ else _] => replace c with true end; [reflexivity|].
    symmetry. apply orb_true_iff. destruct (Z_lt_le_dec v 0); [right; apply Z.ltb_lt | left; apply Z.leb_le]; lia.
Qed.

(* ------------------------------------------------------------------ cpio odc / newc *)
Lemma cpio_atol8_enc : forall ds l,
  Forall (fun d => 0 <= d < 8) ds -> 0 <= l -> be_fold 8 ds l < two64 ->
  cpio_atol8_loop (enc ds) l = be_fold 8 ds l.
Proof.
  induction ds; intros l HF Hl Hlim.
  - reflexivity.
  - inversion HF; subst. cbn [enc map cpio_atol8_loop].
    replace ((48 <=? 48 + a) && (48 + a <=? 55)) with true
      by (symmetry; apply andb_true_iff; split; apply Z.leb_le; lia).
    replace (48 + a - 48) with a by lia.
    unfold be_fold in Hlim |- *. cbn [fold_left] in Hlim |- *. fold (be_fold 8 ds (l * 8 + a)) in Hlim |- *.
    assert (l * 8 + a <= be_fold 8 ds (l * 8 + a))
      by (apply be_fold_mono; [lia | lia | eapply Forall_weaken_nonneg; eassumption]).
    rewrite u64_small by lia. fold (enc ds). apply IHds; try assumption; lia.
Qed.

Theorem octal_roundtrip_cpio : forall w v, 0 <= v < zpow 8 w -> v < two63 ->
  cpio_atol8 (enc (digits_be 8 w v)) = v.
Proof.
  intros w v Hv Hlim. unfold cpio_atol8. unfold two63 in Hlim.
  rewrite cpio_atol8_enc.
  - rewrite be_fold_digits_be_small by lia. apply s64_small. unfold two63. lia.
  - apply digits_be_range. lia.
  - lia.
  - rewrite be_fold_digits_be_small by lia. unfold two64. lia.
Qed.

Lemma odc_format_octal_ok : forall v w,
  fst (odc_format_octal v w) = 0 ->
  0 <= v < zpow 8 w /\ snd (odc_format_octal v w) = enc (digits_be 8 w v).
Proof.
  intros v w. unfold odc_format_octal. cbv zeta.
  destruct ((0 <=? v) && (v <=? zpow 8 w - 1)) eqn:E; cbn [fst snd]; [|lia].
  intros _. apply andb_true_iff in E. destruct E as [E1 E2]. apply Z.leb_le in E1. apply Z.leb_le in E2.
  split; [lia | reflexivity].
Qed.

Lemma odc_format_octal_length : forall v w, length (snd (odc_format_octal v w)) = w.
Proof.
  intros. unfold odc_format_octal. cbv zeta.
  destruct ((0 <=? v) && (v <=? zpow 8 w - 1)); cbn [snd]; rewrite map_length; apply digits_be_length.
Qed.

(* what the reader gets from a saturated field *)
Lemma odc_format_octal_saturates : forall v w, (0 < w <= 20)%nat -> ~ (0 <= v < zpow 8 w) ->
  fst (odc_format_octal v w) = -1 /\ cpio_atol8 (snd (odc_format_octal v w)) = zpow 8 w - 1.
Proof.
  intros v w Hw H. unfold odc_format_octal. cbv zeta.
  destruct ((0 <=? v) && (v <=? zpow 8 w - 1)) eqn:E.
  - exfalso. apply andb_true_iff in E. destruct E as [E1 E2]. apply Z.leb_le in E1. apply Z.leb_le in E2. lia.
  - cbn [fst snd]. split; [reflexivity|].
    assert (0 < zpow 8 w) by (apply zpow_pos; lia).
    assert (zpow 8 w <= zpow 8 20) by (unfold zpow; apply Z.pow_le_mono_r; lia).
    change (zpow 8 20) with 1152921504606846976 in H1.
    apply octal_roundtrip_cpio; unfold two63; lia.
Qed.

Definition hexenc (ds : list Z) : list Z := map hexchar ds.

Lemma hexval_hexchar : forall d, 0 <= d < 16 -> hexval (hexchar d) = Some d.
Proof.
  intros d Hd. unfold hexchar, hexval.
  destruct (d <? 10) eqn:E.
  - apply Z.ltb_lt in E.
    replace ((97 <=? 48 + d) && (48 + d <=? 102)) with false
      by (symmetry; apply andb_false_iff; left; apply Z.leb_gt; lia).
    replace ((65 <=? 48 + d) && (48 + d <=? 70)) with false
      by (symmetry; apply andb_false_iff; left; apply Z.leb_gt; lia).
    replace ((48 <=? 48 + d) && (48 + d <=? 57)) with true
      by (symmetry; apply andb_true_iff; split; apply Z.leb_le; lia).
    f_equal. lia.
  - apply Z.ltb_ge in E.
    replace ((97 <=? 87 + d) && (87 + d <=? 102)) with true
      by (symmetry; apply andb_true_iff; split; apply Z.leb_le; lia).
    f_equal. lia.
Qed.

Lemma cpio_atol16_enc : forall ds l,
  Forall (fun d => 0 <= d < 16) ds -> 0 <= l -> be_fold 16 ds l < two64 ->
  cpio_atol16_loop (hexenc ds) l = be_fold 16 ds l.
Proof.
  induction ds; intros l HF Hl Hlim.
  - reflexivity.
  - inversion HF; subst. cbn [hexenc map cpio_atol16_loop]. rewrite hexval_hexchar by assumption.
    unfold be_fold in Hlim |- *. cbn [fold_left] in Hlim |- *. fold (be_fold 16 ds (l * 16 + a)) in Hlim |- *.
    assert (l * 16 + a <= be_fold 16 ds (l * 16 + a))
      by (apply be_fold_mono; [lia | lia | eapply Forall_weaken_nonneg; eassumption]).
    rewrite u64_small by lia. fold (hexenc ds). apply IHds; try assumption; lia.
Qed.

Theorem hex_roundtrip_cpio : forall w v, 0 <= v < zpow 16 w -> v < two63 ->
  cpio_atol16 (hexenc (digits_be 16 w v)) = v.
Proof.
  intros w v Hv Hlim. unfold cpio_atol16. unfold two63 in Hlim.
  rewrite cpio_atol16_enc.
  - rewrite be_fold_digits_be_small by lia. apply s64_small. unfold two63. lia.
  - apply digits_be_range. lia.
  - lia.
  - rewrite be_fold_digits_be_small by lia. unfold two64. lia.
Qed.

Lemma newc_format_hex_ok : forall v w,
  fst (newc_format_hex v w) = 0 ->
  0 <= v < zpow 16 w /\ snd (newc_format_hex v w) = hexenc (digits_be 16 w v).
Proof.
  intros v w. unfold newc_format_hex. cbv zeta.
  destruct ((0 <=? v) && (v <=? zpow 16 w - 1)) eqn:E; cbn [fst snd]; [|lia].
  intros _. apply andb_true_iff in E. destruct E as [E1 E2]. apply Z.leb_le in E1. apply Z.leb_le in E2.
  split; [lia | reflexivity].
Qed.

Lemma newc_format_hex_length : forall v w, length (snd (newc_format_hex v w)) = w.
Proof.
  intros. unfold newc_format_hex. cbv zeta.
  destruct ((0 <=? v) && (v <=? zpow 16 w - 1)); cbn [snd]; rewrite map_length; apply digits_be_length.
Qed.

Lemma newc_format_hex_saturates : forall v w, (0 < w <= 15)%nat -> ~ (0 <= v < zpow 16 w) ->
  fst (newc_format_hex v w) = -1 /\ cpio_atol16 (snd (newc_format_hex v w)) = zpow 16 w - 1.
Proof.
  intros v w Hw H. unfold newc_format_hex. cbv zeta.
  destruct ((0 <=? v) && (v <=? zpow 16 w - 1)) eqn:E.
  - exfalso. apply andb_true_iff in E. destruct E as [E1 E2]. apply Z.leb_le in E1. apply Z.leb_le in E2. lia.
  - cbn [fst snd]. split; [reflexivity|].
    assert (0 < zpow 16 w) by (apply zpow_pos; lia).
    assert (zpow 16 w <= zpow 16 15) by (unfold zpow; apply Z.pow_le_mono_r; lia).
    change (zpow 16 15) with 1152921504606846976 in H1.
    apply hex_roundtrip_cpio; unfold two63; lia.
Qed.

(* ------------------------------------------------------------------ binary cpio *)
Theorem bin16_roundtrip : forall v, le2 (bin16 v) = v mod 65536.
Proof.
  intros. unfold bin16, le2, u16. cbn [nth]. Z.div_mod_to_equations; lia.
Qed.

Theorem bin32_roundtrip : forall v, le4 (bin32 v) = v mod 4294967296.
Proof.
  intros. unfold bin32, le4, u32. cbn [nth]. Z.div_mod_to_equations; lia.
Qed.

(* ------------------------------------------------------------------ ar (decimal / octal, left-justified, blank-padded) *)
Lemma be_fold_bound : forall b ds, 1 <= b -> Forall (fun d => 0 <= d < b) ds ->
  0 <= be_fold b ds 0 < zpow b (length ds).
Proof.
  induction ds; intros Hb HF.
  - cbn. unfold zpow. cbn. lia.
  - inversion HF; subst. specialize (IHds Hb H2).
    unfold be_fold. cbn [fold_left length]. fold (be_fold b ds (0 * b + a)).
    rewrite be_fold_acc. rewrite zpow_S.
    assert (0 < zpow b (length ds)) by (apply zpow_pos; lia). nia.
Qed.

Lemma enc_app : forall a b, enc (a ++ b) = enc a ++ enc b.
Proof. intros. unfold enc. apply map_app. Qed.

Lemma ar_loop_spec : forall b s v acc, 1 < b -> 0 <= v -> (0 < s)%nat ->
  exists pre, snd (ar_loop b s v acc) = enc pre ++ acc
    /\ Forall (fun d => 0 <= d < b) pre
    /\ (length pre + snd (fst (ar_loop b s v acc)) = s)%nat /\ (0 < length pre)%nat
    /\ v = fst (fst (ar_loop b s v acc)) * zpow b (length pre) + be_fold b pre 0
    /\ 0 <= fst (fst (ar_loop b s v acc)).
Proof.
  induction s; intros v acc Hb Hv Hs; [lia|].
  assert (Hd : 0 <= v mod b < b) by (apply Z.mod_pos_bound; lia).
  assert (Hq : 0 <= v / b) by (apply Z.div_pos; lia).
  assert (Hdm : v = v / b * b + v mod b) by (rewrite Z.mul_comm; apply Z.div_mod; lia).
  cbn [ar_loop]. destruct s as [|s0].
  - exists [v mod b]. cbn [fst snd enc map app length]. repeat split; try lia.
    + constructor; [assumption | constructor].
    + unfold be_fold. cbn [fold_left]. rewrite zpow_S, zpow_0. lia.
  - destruct (0 <? v / b) eqn:E.
    + apply Z.ltb_lt in E.
      destruct (IHs (v / b) ((ch0 + v mod b) :: acc) Hb ltac:(lia) ltac:(lia)) as [pre [H1 [H2 [H3 [H4 [H5 H6]]]]]].
      exists (pre ++ [v mod b]). rewrite H1. rewrite enc_app. rewrite <- app_assoc. cbn [enc map app].
      repeat split.
      * apply Forall_app. split; [assumption | constructor; [assumption | constructor]].
      * rewrite app_length. cbn [length]. lia.
      * rewrite app_length. cbn [length]. lia.
      * rewrite app_length. cbn [length]. replace (length pre + 1)%nat with (S (length pre)) by lia.
        rewrite zpow_S. rewrite be_fold_app. unfold be_fold at 1. cbn [fold_left].
        fold (be_fold b pre 0). rewrite Hdm at 1. rewrite H5 at 1. ring.
      * assumption.
    + exists [v mod b]. cbn [fst snd enc map app length]. repeat split; try lia.
      * constructor; [assumption | constructor].
      * unfold be_fold. cbn [fold_left]. rewrite zpow_S, zpow_0. lia.
Qed.

Lemma ar_atol_digits_enc : forall base limit ldl ds rest l,
  1 <= base <= 10 -> 0 <= l ->
  Forall (fun d => 0 <= d < base) ds ->
  match rest with [] => True | c :: _ => c = 32 end ->
  be_fold base ds l < limit ->
  ar_atol_digits base limit ldl (enc ds ++ rest) l = be_fold base ds l.
Proof.
  induction ds; intros rest l Hb Hl HF Hs Hlim.
  - cbn [enc map app be_fold fold_left]. destruct rest as [|c t]; [reflexivity|]. subst c. reflexivity.
  - inversion HF; subst. cbn [enc map app ar_atol_digits].
    replace (48 + a - 48) with a by lia.
    replace ((48 <=? 48 + a) && (48 + a <? 128) && (a <? base)) with true.
    2:{ symmetry. apply andb_true_iff; split; [apply andb_true_iff; split|];
        [apply Z.leb_le | apply Z.ltb_lt | apply Z.ltb_lt]; lia. }
    unfold be_fold in Hlim |- *. cbn [fold_left] in Hlim |- *. fold (be_fold base ds (l * base + a)) in Hlim |- *.
    assert (Hm : l * base + a <= be_fold base ds (l * base + a))
      by (apply be_fold_mono; [lia | nia | eapply Forall_weaken_nonneg; eassumption]).
    assert (l <= l * base + a) by nia.
    replace ((limit <? l) || ((l =? limit) && (ldl <? a))) with false.
    + fold (enc ds). apply IHds; try assumption; nia.
    + symmetry. apply orb_false_iff. split; [apply Z.ltb_ge; lia|].
      apply andb_false_iff. left. apply Z.eqb_neq. lia.
Qed.

Lemma repeat_head_32 : forall n, match repeat chsp n with [] => True | c :: _ => c = 32 end.
Proof. destruct n; cbn; auto. Qed.

Theorem ar_base_exact : forall b fill v s,
  2 <= b <= 10 -> (0 < s)%nat -> zpow b s < UINT64_MAX / b ->
  fst (ar_format_base b fill v s) = 0 ->
  ar_atol b (snd (ar_format_base b fill v s)) = v /\ length (snd (ar_format_base b fill v s)) = s.
Proof.
  intros b fill v s Hb Hs Hlim. unfold ar_format_base.
  destruct (v <? 0) eqn:E; cbn [fst snd]; [lia|]. apply Z.ltb_ge in E.
  destruct (ar_loop_spec b s v [] ltac:(lia) E Hs) as [pre [H1 [H2 [H3 [H4 [H5 H6]]]]]].
  destruct (ar_loop b s v []) as [[v' srem] acc]. cbn [fst snd] in *.
  destruct (v' =? 0) eqn:E2; cbn [fst snd]; [|lia]. intros _. apply Z.eqb_eq in E2. subst v'.
  rewrite app_nil_r in H1. subst acc. rewrite Z.mul_0_l, Z.add_0_l in H5.
  split.
  - unfold ar_atol.
    destruct pre as [|d pre']; [cbn in H4; lia|]. inversion H2; subst.
    cbn [enc map app]. replace (skip_ws ((48 + d) :: map (fun d0 => 48 + d0) pre' ++ repeat chsp srem))
      with ((48 + d) :: map (fun d0 => 48 + d0) pre' ++ repeat chsp srem) by (symmetry; apply skip_ws_digit; lia).
    change ((48 + d) :: map (fun d0 => 48 + d0) pre' ++ repeat chsp srem) with (enc (d :: pre') ++ repeat chsp srem).
    rewrite ar_atol_digits_enc; try lia; try assumption.
    + apply repeat_head_32.
    + pose proof (be_fold_bound b (d :: pre') ltac:(lia) H2) as Hbd.
      assert (zpow b (length (d :: pre')) <= zpow b (length (d :: pre') + srem)) by (unfold zpow; apply Z.pow_le_mono_r; lia). lia.
  - rewrite app_length, enc_length, repeat_length. lia.
Qed.

Theorem ar_decimal_exact : forall v s, (0 < s <= 17)%nat ->
  fst (ar_format_decimal v s) = 0 ->
  ar_atol10 (snd (ar_format_decimal v s)) = v /\ length (snd (ar_format_decimal v s)) = s.
Proof.
  intros v s Hs H. unfold ar_format_decimal, ar_atol10 in *. apply ar_base_exact; try lia; try assumption.
  assert (zpow 10 s <= zpow 10 17) by (unfold zpow; apply Z.pow_le_mono_r; lia).
  change (zpow 10 17) with 100000000000000000 in H0. change (UINT64_MAX / 10) with 1844674407370955161. lia.
Qed.

Theorem ar_octal_exact : forall v s, (0 < s <= 20)%nat ->
  fst (ar_format_octal v s) = 0 ->
  ar_atol8 (snd (ar_format_octal v s)) = v /\ length (snd (ar_format_octal v s)) = s.
Proof.
  intros v s Hs H. unfold ar_format_octal, ar_atol8 in *. apply ar_base_exact; try lia; try assumption.
  assert (zpow 8 s <= zpow 8 20) by (unfold zpow; apply Z.pow_le_mono_r; lia).
  change (zpow 8 20) with 1152921504606846976 in H0. change (UINT64_MAX / 8) with 2305843009213693951. lia.
Qed.
