(* The pax record layer: the decimal length prefix written by add_pax_attr_binary equals the length
   of the record it prefixes. *)
From Coq Require Import List ZArith Bool Lia.
From LA Require Import Fmt.FmtNumDefs Fmt.FmtNumProofs Fmt.FmtTarDefs Fmt.FmtParseDefs.
Import ListNotations.
Local Open Scope Z_scope.

Definition pow10 (k : nat) : Z := zpow 10 k.

Lemma pow10_S : forall k, pow10 (S k) = 10 * pow10 k.
Proof. intros. apply zpow_S. Qed.
Lemma pow10_pos : forall k, 0 < pow10 k.
Proof. intros. apply zpow_pos. lia. Qed.

(* n has exactly k decimal digits *)
Definition has_digits (k : nat) (n : Z) : Prop :=
  match k with
  | O => False
  | S O => 0 <= n < 10
  | S k' => pow10 k' <= n < pow10 k
  end.

Lemma has_digits_div : forall k n, has_digits (S (S k)) n -> has_digits (S k) (n / 10) /\ n / 10 <> 0.
Proof.
  intros k n H. cbn [has_digits] in H.
  pose proof (pow10_pos k) as Hp.
  pose proof (pow10_S k) as E1. pose proof (pow10_S (S k)) as E2.
  assert (pow10 k <= n / 10 < pow10 (S k)).
  { split.
    - apply Z.div_le_lower_bound; lia.
    - apply Z.div_lt_upper_bound; lia. }
  split; [|lia].
  destruct k; cbn [has_digits].
  - change (pow10 0) with 1 in *. change (pow10 1) with 10 in *. lia.
  - assumption.
Qed.

Lemma dec_digits_length : forall k fuel n acc, (k <= fuel)%nat -> has_digits k n ->
  length (dec_digits fuel n acc) = (k + length acc)%nat.
Proof.
  induction k; intros fuel n acc Hf Hd; [contradiction|].
  destruct fuel; [lia|]. cbn [dec_digits].
  destruct k.
  - cbn [has_digits] in Hd. rewrite Z.div_small by lia. cbn [Z.eqb length]. lia.
  - destruct (has_digits_div k n Hd) as [H1 H2].
    destruct (n / 10 =? 0) eqn:E; [apply Z.eqb_eq in E; contradiction|].
    rewrite (IHk fuel (n / 10)); [cbn [length]; lia | lia | assumption].
Qed.

Lemma format_int_length : forall k n, (1 <= k <= 20)%nat -> has_digits k n -> length (format_int n) = k.
Proof.
  intros. unfold format_int. rewrite (dec_digits_length k) by (assumption || lia). cbn [length]. lia.
Qed.

(* the value of the digits: atoi_dec (format_int n ++ ' ' :: _) = n *)
Lemma atoi_dec_app_digit : forall ds rest acc,
  Forall (fun d => 0 <= d < 10) ds -> (match rest with [] => True | c :: _ => c = 32 end) ->
  atoi_dec (map (fun d => 48 + d) ds ++ rest) acc = be_fold 10 ds acc.
Proof.
  induction ds; intros rest acc HF Hr; cbn [map app].
  - cbn [be_fold fold_left]. destruct rest; [reflexivity|]. subst z. reflexivity.
  - inversion HF; subst. cbn [atoi_dec].
    replace ((48 <=? 48 + a) && (48 + a <=? 57)) with true
      by (symmetry; apply andb_true_iff; split; apply Z.leb_le; lia).
    replace (48 + a - 48) with a by lia.
    rewrite IHds by assumption. reflexivity.
Qed.

Lemma dec_digits_value : forall k fuel n acc, (k <= fuel)%nat -> has_digits k n ->
  exists ds, dec_digits fuel n acc = map (fun d => 48 + d) ds ++ acc /\ Forall (fun d => 0 <= d < 10) ds
             /\ be_fold 10 ds 0 = n.
Proof.
  induction k; intros fuel n acc Hf Hd; [contradiction|].
  destruct fuel; [lia|]. cbn [dec_digits].
  assert (Hm : 0 <= n mod 10 < 10) by (apply Z.mod_pos_bound; lia).
  destruct k.
  - cbn [has_digits] in Hd. rewrite Z.div_small by lia. cbn [Z.eqb].
    exists [n mod 10]. cbn [map app]. repeat split.
    + constructor; [assumption | constructor].
    + unfold be_fold. cbn [fold_left]. rewrite Z.mod_small by lia. lia.
  - destruct (has_digits_div k n Hd) as [H1 H2].
    destruct (n / 10 =? 0) eqn:E; [apply Z.eqb_eq in E; contradiction|].
    destruct (IHk fuel (n / 10) ((48 + n mod 10) :: acc) ltac:(lia) H1) as [ds [Hds [HF Hv]]].
    exists (ds ++ [n mod 10]). rewrite Hds. rewrite map_app. rewrite <- app_assoc. cbn [map app]. repeat split.
    + apply Forall_app. split; [assumption | constructor; [assumption | constructor]].
    + rewrite be_fold_app. rewrite Hv. unfold be_fold. cbn [fold_left].
      rewrite (Z.div_mod n 10) at 3 by lia. lia.
Qed.

(* count_digits on a k-digit positive number: k more digits, next_ten multiplied by 10^k *)
Lemma count_digits_spec : forall k fuel i d t, (k <= fuel)%nat -> (1 <= k)%nat -> has_digits k i -> 0 < i ->
  (S k <= fuel)%nat -> count_digits fuel i d t = (d + Z.of_nat k, t * pow10 k).
Proof.
  induction k; intros fuel i d t Hf Hk Hd Hi Hf2; [lia|].
  destruct fuel; [lia|]. cbn [count_digits].
  replace (0 <? i) with true by (symmetry; apply Z.ltb_lt; assumption).
  destruct k.
  - cbn [has_digits] in Hd. rewrite Z.div_small by lia.
    destruct fuel; [lia|]. cbn [count_digits Z.ltb Z.compare]. change (pow10 1) with 10. f_equal; lia.
  - destruct (has_digits_div k i Hd) as [H1 H2].
    assert (0 < i / 10).
    { assert (0 <= i / 10) by (apply Z.div_pos; lia). lia. }
    rewrite (IHk fuel (i / 10)); try assumption; try lia.
    rewrite (pow10_S (S k)). f_equal; lia.
Qed.

Lemma has_digits_exists : forall n, 0 < n < pow10 10 -> exists k, (1 <= k <= 10)%nat /\ has_digits k n.
Proof.
  intros n Hn.
  assert (Hc : n < pow10 1 \/ (pow10 1 <= n < pow10 2) \/ (pow10 2 <= n < pow10 3) \/ (pow10 3 <= n < pow10 4)
            \/ (pow10 4 <= n < pow10 5) \/ (pow10 5 <= n < pow10 6) \/ (pow10 6 <= n < pow10 7)
            \/ (pow10 7 <= n < pow10 8) \/ (pow10 8 <= n < pow10 9) \/ (pow10 9 <= n < pow10 10)).
  { unfold pow10, zpow in *. cbn in *. lia. }
  destruct Hc as [H|[H|[H|[H|[H|[H|[H|[H|[H|H]]]]]]]]].
  - exists 1%nat. split; [lia|]. cbn [has_digits]. change (pow10 1) with 10 in H. lia.
  - exists 2%nat. split; [lia | exact H].
  - exists 3%nat. split; [lia | exact H].
  - exists 4%nat. split; [lia | exact H].
  - exists 5%nat. split; [lia | exact H].
  - exists 6%nat. split; [lia | exact H].
  - exists 7%nat. split; [lia | exact H].
  - exists 8%nat. split; [lia | exact H].
  - exists 9%nat. split; [lia | exact H].
  - exists 10%nat. split; [lia | exact H].
Qed.

Lemma has_digits_bounds : forall k n, (1 <= k)%nat -> has_digits k n -> 0 <= n < pow10 k /\ (k = 1%nat \/ pow10 (k - 1) <= n).
Proof.
  intros k n Hk H. destruct k; [lia|]. destruct k.
  - cbn [has_digits] in H. change (pow10 1) with 10. split; [lia | left; reflexivity].
  - cbn [has_digits] in H. pose proof (pow10_pos (S k)). split; [lia|]. right.
    replace (S (S k) - 1)%nat with (S k) by lia. lia.
Qed.

(* the length field of a pax record counts the whole record, itself included *)
Theorem pax_record_len : forall key value,
  1 + lenZ key + 1 + lenZ value + 1 < 1000000000 ->
  lenZ (pax_record key value) = pax_record_total key value
  /\ atoi_dec (pax_record key value) 0 = lenZ (pax_record key value).
Proof.
  intros key value Hlim.
  set (len := 1 + lenZ key + 1 + lenZ value + 1) in *.
  assert (Hlen : 3 <= len) by (unfold len, lenZ; lia).
  destruct (has_digits_exists len) as [k [Hk Hd]]; [unfold pow10, zpow; cbn; lia|].
  assert (Hk9 : (k <= 9)%nat).
  { destruct (has_digits_bounds k len ltac:(lia) Hd) as [_ [Hk1|Hlow]]; [lia|].
    destruct (le_lt_dec k 9); [assumption|].
    assert (pow10 9 <= pow10 (k - 1)) by (unfold pow10, zpow; apply Z.pow_le_mono_r; lia).
    change (pow10 9) with 1000000000 in H. lia. }
  assert (Htot : pax_record_total key value = len + Z.of_nat k + (if pow10 k <=? len + Z.of_nat k then 1 else 0)).
  { unfold pax_record_total. fold len.
    rewrite (count_digits_spec k 12 len 0 1); try lia; try assumption.
    rewrite Z.mul_1_l. rewrite Z.add_0_l. destruct (pow10 k <=? len + Z.of_nat k); lia. }
  destruct (has_digits_bounds k len ltac:(lia) Hd) as [[Hb0 Hb1] Hb2].
  (* number of digits of the total *)
  assert (Hdt : has_digits (if pow10 k <=? len + Z.of_nat k then S k else k) (pax_record_total key value)).
  { rewrite Htot. destruct (pow10 k <=? len + Z.of_nat k) eqn:E.
    - apply Z.leb_le in E. destruct k; [lia|]. cbn [has_digits]. rewrite (pow10_S (S k)).
      pose proof (pow10_pos (S k)).
      assert (Z.of_nat (S k) + 1 < pow10 (S k)).
      { assert (Hsmall : forall j, (1 <= j <= 9)%nat -> Z.of_nat j + 1 < pow10 j).
        { intros j Hj. assert (j = 1 \/ j = 2 \/ j = 3 \/ j = 4 \/ j = 5 \/ j = 6 \/ j = 7 \/ j = 8 \/ j = 9)%nat by lia.
          unfold pow10, zpow. repeat (destruct H0 as [->|H0]; [cbn; lia|]). subst j. cbn. lia. }
        apply Hsmall. lia. }
      lia.
    - apply Z.leb_gt in E. destruct k; [lia|]. destruct k.
      + cbn [has_digits]. change (pow10 1) with 10 in *. lia.
      + cbn [has_digits]. destruct Hb2 as [Hb2|Hb2]; [lia|].
        replace (S (S k) - 1)%nat with (S k) in Hb2 by lia. lia. }
  assert (Hfl : length (format_int (pax_record_total key value)) = (if pow10 k <=? len + Z.of_nat k then S k else k)).
  { apply format_int_length; [destruct (pow10 k <=? len + Z.of_nat k); lia | assumption]. }
  split.
  - unfold pax_record, lenZ. rewrite !app_length. rewrite Hfl. cbn [length]. rewrite Htot.
    unfold len, lenZ. destruct (pow10 k <=? _); lia.
  - assert (Hl : lenZ (pax_record key value) = pax_record_total key value).
    { unfold pax_record, lenZ. rewrite !app_length. rewrite Hfl. cbn [length]. rewrite Htot.
      unfold len, lenZ. destruct (pow10 k <=? _); lia. }
    rewrite Hl. unfold pax_record, format_int.
    assert (Hk20 : (((if (pow10 k <=? len + Z.of_nat k)%Z then S k else k)) <= 20)%nat) by (destruct (pow10 k <=? _)%Z; lia).
    destruct (dec_digits_value _ 20 (pax_record_total key value) [] Hk20 Hdt) as [ds [Hds [HF Hv]]].
    rewrite Hds. rewrite app_nil_r. rewrite atoi_dec_app_digit; [assumption | assumption | reflexivity].
Qed.
