(* ar writer: a refused member (ARCHIVE_WARN) leaves nothing for finish_entry to act upon. *)
From Coq Require Import List ZArith Bool Lia.
From LA Require Import Gen.Defines Gen.FmtLayout Fmt.FmtNumDefs Fmt.FmtTarDefs Fmt.FmtArDefs.
Import ListNotations.
Local Open Scope Z_scope.

Lemma st_warn_ne_ok : ST_OK <> ST_WARN.
Proof. unfold ST_OK, ST_WARN, ARCHIVE_OK, ARCHIVE_WARN. lia. Qed.

Lemma triple_inv : forall {A B C} (a a' : A) (b b' : B) (c c' : C), (a, b, c) = (a', b', c') -> a = a' /\ b = b' /\ c = c'.
Proof. intros. inversion H. auto. Qed.

Ltac finish_branch H :=
  apply triple_inv in H; let H1 := fresh in let H2 := fresh in destruct H as [H1 [H2 _]];
  first [ exfalso; apply st_warn_ne_ok; exact H2 | subst; cbn [ar_remaining ar_padding]; split; reflexivity ].

Theorem ar_header_refused_clean : forall gnu st e st' out,
  ar_header gnu st e = (st', ST_WARN, out) -> ar_remaining st' = 0 /\ ar_padding st' = 0.
Proof.
  intros gnu st e st' out H. unfold ar_header in H. cbv zeta in H.
  repeat match type of H with
  | context [match ?x with _ => _ end] =>
      match x with
      | context [match _ with _ => _ end] => fail 1
      | _ => destruct x eqn:?
      end
  end; try finish_branch H.
Qed.

(* hence archive_write_finish_entry after a refused header writes nothing *)
Theorem ar_refused_writes_nothing : forall gnu st e st' out,
  ar_header gnu st e = (st', ST_WARN, out) -> ar_finish st' = (ST_OK, []).
Proof.
  intros gnu st e st' out H. destruct (ar_header_refused_clean _ _ _ _ _ H) as [H1 H2].
  unfold ar_finish. rewrite H1, H2. reflexivity.
Qed.
