(* val -> val front end of the fmt family (see harness/fmt.c and harness/fmtnum.c for the case syntax). *)
From Coq Require Import List ZArith NArith Bool.
From LA Require Import Base.Val Gen.Defines Gen.FmtLayout Fmt.FmtNumDefs Fmt.FmtTarDefs Fmt.FmtCpioDefs
  Fmt.FmtArDefs Fmt.FmtWriteDefs Fmt.FmtParseDefs.
Import ListNotations.
Local Open Scope Z_scope.

Definition zb (b : list N) : list Z := map Z.of_N b.
Definition bz (l : list Z) : list N := map (fun z => Z.to_N (z mod 256)) l.
Definition VBz (l : list Z) : val := VB (bz l).

Definition opt_bytes (v : val) : option (list Z) :=
  match lval v with [s] => Some (zb (bval s)) | _ => None end.
Definition opt_z (v : val) : option Z :=
  match lval v with [s] => Some (zval s) | _ => None end.
Definition opt_time_sec (v : val) : Z :=
  match lval v with [t] => zval (vnth (lval t) 0) | _ => 0 end.

(* the harness' chunking loop: sizes from the list (last one repeats, 0 means 1); no list = one write *)
Fixpoint split_chunks (fuel : nat) (body : list Z) (sizes : list Z) (lastsz : Z) : list (list Z) :=
  match fuel with
  | O => []
  | S f =>
      match body with
      | [] => []
      | _ =>
          let '(want, rest) := match sizes with
                               | s :: t => (s, t)
                               | [] => (lastsz, [])
                               end in
          let want := if want =? 0 then 1 else want in
          let n := Z.to_nat want in
          firstn n body :: split_chunks f (skipn n body) rest want
      end
  end.

(* archive_entry_set_uid / _gid / _size / _ino64 store 0 for a negative argument *)
Definition clamp0 (z : Z) : Z := if z <? 0 then 0 else z.

Definition entry_of_val (v : val) : entry * bool :=
  let l := lval v in
  let flags := zval (vnth l 19) in
  let body := zb (bval (vnth l 17)) in
  let sizes := map zval (lval (vnth l 18)) in
  let chunks := if Z.testbit flags 2 then []
                else match sizes with
                     | [] => match body with [] => [] | _ => [body] end
                     | _ => split_chunks (S (length body)) body sizes 1
                     end in
  (mkEntry (opt_bytes (vnth l 0)) (opt_bytes (vnth l 1)) (opt_bytes (vnth l 2))
           (opt_bytes (vnth l 3)) (opt_bytes (vnth l 4))
           (zval (vnth l 5)) (clamp0 (zval (vnth l 6))) (clamp0 (zval (vnth l 7)))
           (option_map clamp0 (opt_z (vnth l 8)))
           (opt_time_sec (vnth l 9))
           (match opt_z (vnth l 13) with Some d => d | None => 0 end)
           (match opt_z (vnth l 14) with Some i => if i <? 0 then 0 else i | None => 0 end)
           (zval (vnth l 15)) (zval (vnth l 16)) chunks,
   Z.testbit flags 0).

Fixpoint list_eqb_N (a b : list N) : bool :=
  match a, b with
  | [], [] => true
  | x :: a', y :: b' => N.eqb x y && list_eqb_N a' b'
  | _, _ => false
  end.

Definition ascii (s : list Z) : list N := map Z.to_N s.

Definition fmt_of_name (n : list N) : option fmt :=
  if list_eqb_N n (ascii [117;115;116;97;114]) then Some Ustar                 (* ustar *)
  else if list_eqb_N n (ascii [118;55;116;97;114]) then Some V7tar             (* v7tar *)
  else if list_eqb_N n (ascii [103;110;117;116;97;114]) then Some Gnutar       (* gnutar *)
  else if list_eqb_N n (ascii [111;100;99]) then Some Odc                      (* odc *)
  else if list_eqb_N n (ascii [99;112;105;111]) then Some Odc                  (* cpio *)
  else if list_eqb_N n (ascii [110;101;119;99]) then Some Newc                 (* newc *)
  else if list_eqb_N n (ascii [98;105;110]) then Some Bin                      (* bin *)
  else if list_eqb_N n (ascii [112;119;98]) then Some Pwb                      (* pwb *)
  else if list_eqb_N n (ascii [97;114;98;115;100]) then Some ArBsd             (* arbsd *)
  else if list_eqb_N n (ascii [97;114;103;110;117]) then Some ArGnu            (* argnu *)
  else None.

Definition val_of_rec (r : erec) : val :=
  VL [VI (r_hdr r); VI (r_before r); VI (r_after r); VI (r_data r); VI (r_fin r)].

Definition run_write (l : list val) : val :=
  match fmt_of_name (bval (vnth l 2)) with
  | None => VErr 2
  | Some f =>
      let es := map entry_of_val (lval (vnth l 7)) in
      let emit := zval (vnth l 8) in
      let '(recs, c, out) := write_archive f es in
      VL [VL (map val_of_rec recs); VI c; VI (lenZ out); VBz (if lenZ out <=? emit then out else firstn (Z.to_nat emit) out)]
  end.

(* numeric codec unit cases: (10 kind v s maxsize strict) -> (ret bytes);  (11 kind bytes) -> (value) *)
Definition run_enc (l : list val) : val :=
  let kind := zval (vnth l 1) in
  let v := zval (vnth l 2) in
  let s := Z.to_nat (zval (vnth l 3)) in
  let mx := Z.to_nat (zval (vnth l 4)) in
  let strict := boolval (vnth l 5) in
  let '(r, b) :=
    if kind =? 0 then ustar_format_number v s mx strict
    else if kind =? 1 then ustar_format_octal v s
    else if kind =? 2 then format_256 v s
    else if kind =? 3 then gnutar_format_number v s mx
    else if kind =? 4 then gnutar_format_octal v s
    else if kind =? 5 then odc_format_octal v s
    else if kind =? 6 then newc_format_hex v s
    else if kind =? 7 then ar_format_octal v s
    else if kind =? 8 then ar_format_decimal v s
    else if kind =? 9 then (0, bin16 v)
    else if kind =? 10 then (0, bin32 v)
    else if kind =? 11 then ustar_format_number v s mx strict
    else (0, []) in
  (* the harness prints the whole field buffer of max(s, maxsize) bytes, prefilled with 0xEE *)
  VL [VI r; VBz (b ++ repeat 238 (Nat.max s mx - length b))].

Definition run_dec (l : list val) : val :=
  let kind := zval (vnth l 1) in
  let b := zb (bval (vnth l 2)) in
  VL [VI (if kind =? 0 then tar_atol b
          else if kind =? 1 then tar_atol8 b
          else if kind =? 2 then tar_atol256 b
          else if kind =? 3 then tar_atol10 b
          else if kind =? 4 then cpio_atol8 b
          else if kind =? 5 then cpio_atol16 b
          else if kind =? 6 then le4 b
          else if kind =? 7 then ar_atol10 b
          else if kind =? 8 then ar_atol8 b
          else 0)].

(* (1 loc fmt opts flt bpb bilb <archive bytes> ...) -> ( (path link type mode uid gid size mtime uname gname rmaj rmin dmaj dmin ino nlink body)* ) | () *)
Definition val_of_view (vb : pview * list Z) : val :=
  let v := fst vb in
  VL [VBz (pv_path v); VBz (pv_link v); VI (pv_type v); VI (pv_mode v); VI (pv_uid v); VI (pv_gid v); VI (pv_size v);
      VI (pv_mtime v); VBz (pv_uname v); VBz (pv_gname v); VI (pv_rmaj v); VI (pv_rmin v); VI (pv_dmaj v); VI (pv_dmin v);
      VI (pv_ino v); VI (pv_nlink v); VBz (snd vb)].

Definition run_parse (l : list val) : val :=
  let data := zb (bval (vnth l 7)) in
  let fuel := S (length data / 76) in
  let r := match fmt_of_name (bval (vnth l 2)) with
           | Some Ustar => ustar_parse_archive fuel data
           | Some Newc => cpio_parse_archive newc_parse_entry fuel data
           | Some Odc => cpio_parse_archive odc_parse_entry fuel data
           | _ => None
           end in
  match r with
  | Some es => VL [VL (map val_of_view es)]
  | None => VL []
  end.

Definition run (v : val) : val :=
  let l := lval v in
  let op := zval (vnth l 0) in
  if (op =? 0) || (op =? 2) then run_write l
  else if op =? 1 then run_parse l
  else if op =? 10 then run_enc l
  else if op =? 11 then run_dec l
  else VErr 1.
