(* Numeric field codecs of the byte-level archive formats, transcribed from the C sources.
   Writers:  archive_write_set_format_{ustar,v7tar,gnutar,cpio_odc,cpio_newc,cpio_binary,ar}.c
   Readers:  archive_read_support_format_{tar,cpio,ar}.c
   Bytes are integers 0..255 (type Z); C int64_t values are integers in [-2^63, 2^63). *)
From Coq Require Import List ZArith Bool.
Import ListNotations.
Local Open Scope Z_scope.

Definition INT64_MAX : Z := 9223372036854775807.
Definition INT64_MIN : Z := -9223372036854775808.
Definition UINT64_MAX : Z := 18446744073709551615.
Definition two64 : Z := 18446744073709551616.
Definition two63 : Z := 9223372036854775808.

Definition u64 (z : Z) : Z := z mod two64.                       (* (uint64_t) z *)
Definition s64 (z : Z) : Z := (z + two63) mod two64 - two63.     (* (int64_t) z  *)
Definition u32 (z : Z) : Z := z mod 4294967296.
Definition u16 (z : Z) : Z := z mod 65536.

(* w digits of v in base b, least significant first:  *--p = digit(v); v /= b  repeated w times.
   Z.div / Z.modulo floor, as an arithmetic >> and & on two's-complement values do. *)
Fixpoint digits_le (b : Z) (w : nat) (v : Z) : list Z :=
  match w with
  | O => []
  | S w' => (v mod b) :: digits_le b w' (v / b)
  end.
Definition digits_be (b : Z) (w : nat) (v : Z) : list Z := rev (digits_le b w v).

Definition zpow (b : Z) (n : nat) : Z := b ^ Z.of_nat n.

Definition ch0 : Z := 48.  (* '0' *)
Definition ch7 : Z := 55.
Definition ch9 : Z := 57.
Definition chsp : Z := 32.

(* ------------------------------------------------------------------ ustar.c / v7tar.c (identical text) *)
(* format_octal(v, p, s): negative -> '0'-filled, -1; overflow -> '7'-filled, -1 *)
Definition ustar_format_octal (v : Z) (s : nat) : Z * list Z :=
  if v <? 0 then (-1, repeat ch0 s)
  else if v / zpow 8 s =? 0 then (0, map (fun d => ch0 + d) (digits_be 8 s v))
  else (-1, repeat ch7 s).

(* format_256(v, p, s): big-endian two's complement, marker bit set on the first byte *)
Definition format_256 (v : Z) (s : nat) : Z * list Z :=
  match digits_be 256 s v with
  | [] => (0, [])
  | b0 :: t => (0, (b0 mod 128 + 128) :: t)
  end.

(* the  while (s <= maxsize) { if (v < limit) return format_octal(v,p,s); s++; limit <<= 3; }  loop *)
Fixpoint fn_loop (fuel : nat) (v : Z) (s : nat) : option (Z * list Z) :=
  match fuel with
  | O => None
  | S f => if v <? zpow 8 s then Some (ustar_format_octal v s) else fn_loop f v (S s)
  end.

Definition ustar_format_number (v : Z) (s maxsize : nat) (strict : bool) : Z * list Z :=
  if strict then ustar_format_octal v s
  else match (if 0 <=? v then fn_loop (S maxsize - s) v s else None) with
       | Some r => r
       | None => format_256 v maxsize
       end.

(* ------------------------------------------------------------------ gnutar.c *)
(* format_octal: negative values are replaced by 0 and reported as success *)
Definition gnutar_format_octal (v : Z) (s : nat) : Z * list Z :=
  let v := if v <? 0 then 0 else v in
  if v / zpow 8 s =? 0 then (0, map (fun d => ch0 + d) (digits_be 8 s v))
  else (-1, repeat ch7 s).

(* gnutar.c's own format_256: a field of at most 8 bytes holds 8s-1 bits of two's complement behind the marker
   bit; a value outside is refused (-1) - the bytes are written all the same in the C code only when accepted *)
Definition gnutar_format_256 (v : Z) (s : nat) : Z * list Z :=
  if (s <? 9)%nat && ((2 ^ (8 * Z.of_nat s - 2) <=? v) || (v <? - 2 ^ (8 * Z.of_nat s - 2)))
  then (-1, [])
  else format_256 v s.

Definition gnutar_format_number (v : Z) (s maxsize : nat) : Z * list Z :=
  if (0 <=? v) && (v <? zpow 8 s) then gnutar_format_octal v s else gnutar_format_256 v maxsize.

(* ------------------------------------------------------------------ cpio_odc.c / cpio_newc.c *)
Definition odc_format_octal (v : Z) (digits : nat) : Z * list Z :=
  let max := zpow 8 digits - 1 in
  if (0 <=? v) && (v <=? max) then (0, map (fun d => ch0 + d) (digits_be 8 digits v))
  else (-1, map (fun d => ch0 + d) (digits_be 8 digits max)).

Definition hexchar (d : Z) : Z := if d <? 10 then 48 + d else 87 + d.   (* "0123456789abcdef"[d] *)

Definition newc_format_hex (v : Z) (digits : nat) : Z * list Z :=
  let max := zpow 16 digits - 1 in
  if (0 <=? v) && (v <=? max) then (0, map hexchar (digits_be 16 digits v))
  else (-1, map hexchar (digits_be 16 digits max)).

(* ------------------------------------------------------------------ cpio_binary.c (little-endian host) *)
(* la_swap16(x) is the identity on a little-endian host; the uint16_t object is stored low byte first *)
Definition bin16 (v : Z) : list Z := let x := u16 v in [x mod 256; x / 256].
(* la_swap32(x) swaps the 16-bit halves: stored bytes are  b2 b3 b0 b1  (PDP-11 order) *)
Definition bin32 (v : Z) : list Z :=
  let x := u32 v in [(x / 65536) mod 256; x / 16777216; x mod 256; (x / 256) mod 256].

(* ------------------------------------------------------------------ ar.c *)
(* do { *--p = '0' + v % b; v /= b; } while (--s > 0 && v > 0);   acc = digits written so far *)
Fixpoint ar_loop (b : Z) (s : nat) (v : Z) (acc : list Z) : Z * nat * list Z :=
  match s with
  | O => (v, O, acc)
  | S s' =>
      let acc' := (ch0 + v mod b) :: acc in
      let v' := v / b in
      match s' with
      | O => (v', O, acc')
      | S _ => if 0 <? v' then ar_loop b s' v' acc' else (v', s', acc')
      end
  end.

Definition ar_format_base (b fill : Z) (v : Z) (s : nat) : Z * list Z :=
  if v <? 0 then (-1, repeat ch0 s)
  else let '(v', srem, acc) := ar_loop b s v [] in
       if v' =? 0 then (0, acc ++ repeat chsp srem) else (-1, repeat fill s).

Definition ar_format_octal := ar_format_base 8 ch7.
Definition ar_format_decimal := ar_format_base 10 ch9.

(* ================================================================== readers *)
Definition is_ws (c : Z) : bool := (c =? 32) || (c =? 9).
Fixpoint skip_ws (l : list Z) : list Z :=
  match l with
  | c :: t => if is_ws c then skip_ws t else l
  | [] => []
  end.

(* tar.c: tar_atol_base_n; None = the 'return maxval' overflow exit *)
Fixpoint atol_digits (base limit ldl : Z) (p : list Z) (l : Z) : option Z :=
  match p with
  | [] => Some l
  | c :: t =>
      let d := c - 48 in
      if (0 <=? d) && (d <? base) then
        if (limit <? l) || ((l =? limit) && (ldl <=? d)) then None
        else atol_digits base limit ldl t (l * base + d)
      else Some l
  end.

Definition atol_pos (q : list Z) (base : Z) : Z :=
  match atol_digits base (Z.quot INT64_MAX base) (Z.rem INT64_MAX base) q 0 with
  | Some l => l
  | None => INT64_MAX
  end.
Definition atol_neg (t : list Z) (base : Z) : Z :=
  match atol_digits base (- (Z.quot INT64_MIN base)) (- (Z.rem INT64_MIN base)) t 0 with
  | Some l => - l
  | None => INT64_MIN
  end.

Definition tar_atol_base_n (p : list Z) (base : Z) : Z :=
  match skip_ws p with
  | c :: t => if c =? 45 then atol_neg t base else atol_pos (c :: t) base
  | [] => atol_pos [] base
  end.

Definition tar_atol8 (p : list Z) : Z := tar_atol_base_n p 8.
Definition tar_atol10 (p : list Z) : Z := tar_atol_base_n p 10.

(* tar_atol256 *)
Fixpoint a256_skip (extra : nat) (neg c : Z) (t : list Z) : option (Z * list Z) :=
  match extra with
  | O => Some (c, t)
  | S k => if c =? neg then
             match t with
             | c' :: t' => a256_skip k neg c' t'
             | [] => Some (c, t)
             end
           else None
  end.

Definition tar_atol256 (p : list Z) : Z :=
  match p with
  | [] => 0
  | c0 :: t =>
      let negb6 := 64 <=? c0 mod 128 in            (* c & 0x40 *)
      let neg := if negb6 then 255 else 0 in
      let c := if negb6 then c0 mod 128 + 128 else c0 mod 128 in
      let l0 := if negb6 then UINT64_MAX else 0 in
      let ovf := if negb6 then INT64_MIN else INT64_MAX in
      match a256_skip (length p - 8)%nat neg c t with
      | None => ovf
      | Some (c1, rest) =>
          if negb (Bool.eqb (128 <=? c1) negb6) then ovf       (* (c ^ neg) & 0x80 *)
          else s64 (fold_left (fun l x => u64 (l * 256 + x)) (c1 :: rest) l0)
      end
  end.

Definition tar_atol (p : list Z) : Z :=
  match p with
  | c :: _ => if 128 <=? c then tar_atol256 p else tar_atol8 p
  | [] => tar_atol8 p
  end.

(* cpio.c: atol8 / atol16 (uint64 accumulator, result cast to int64), le4 *)
Fixpoint cpio_atol8_loop (p : list Z) (l : Z) : Z :=
  match p with
  | c :: t => if (48 <=? c) && (c <=? 55) then cpio_atol8_loop t (u64 (l * 8 + (c - 48))) else l
  | [] => l
  end.
Definition cpio_atol8 (p : list Z) : Z := s64 (cpio_atol8_loop p 0).

Definition hexval (c : Z) : option Z :=
  if (97 <=? c) && (c <=? 102) then Some (c - 87)
  else if (65 <=? c) && (c <=? 70) then Some (c - 55)
  else if (48 <=? c) && (c <=? 57) then Some (c - 48)
  else None.
Fixpoint cpio_atol16_loop (p : list Z) (l : Z) : Z :=
  match p with
  | c :: t => match hexval c with
              | Some d => cpio_atol16_loop t (u64 (l * 16 + d))
              | None => l
              end
  | [] => l
  end.
Definition cpio_atol16 (p : list Z) : Z := s64 (cpio_atol16_loop p 0).

Definition le2 (p : list Z) : Z := nth 0 p 0 + nth 1 p 0 * 256.
Definition le4 (p : list Z) : Z :=
  nth 0 p 0 * 65536 + nth 1 p 0 * 16777216 + nth 2 p 0 + nth 3 p 0 * 256.

(* ar.c: ar_atol8 / ar_atol10 on the bytes of one field (faithful when the field is not blank:
   on an all-blank field the C loop counter wraps and the code reads into the next field) *)
Fixpoint ar_atol_digits (base limit ldl : Z) (p : list Z) (l : Z) : Z :=
  match p with
  | [] => l
  | c :: t =>
      if (48 <=? c) && (c <? 128) && (c - 48 <? base) then
        if (limit <? l) || ((l =? limit) && (ldl <? c - 48)) then UINT64_MAX
        else ar_atol_digits base limit ldl t (l * base + (c - 48))
      else l
  end.
Definition ar_atol (base : Z) (p : list Z) : Z :=
  ar_atol_digits base (UINT64_MAX / base) (UINT64_MAX mod base) (skip_ws p) 0.
Definition ar_atol10 := ar_atol 10.
Definition ar_atol8 := ar_atol 8.

(* glibc gnu_dev_major / gnu_dev_minor / gnu_dev_makedev on 64-bit dev_t (results are unsigned int) *)
Definition dev_major (dev : Z) : Z :=
  Z.lor (Z.land (Z.shiftr dev 32) 4294963200) (Z.land (Z.shiftr dev 8) 4095).
Definition dev_minor (dev : Z) : Z :=
  Z.lor (Z.land (Z.shiftr dev 12) 4294967040) (Z.land dev 255).
Definition dev_make (maj min : Z) : Z :=
  Z.lor (Z.lor (Z.shiftl (Z.land maj 4294963200) 32) (Z.shiftl (Z.land maj 4095) 8))
        (Z.lor (Z.shiftl (Z.land min 4294967040) 12) (Z.land min 255)).
