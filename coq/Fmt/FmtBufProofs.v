(* Byte-buffer lemmas: put / slice / apply_writes. *)
From Coq Require Import List ZArith Bool Lia.
From LA Require Import Fmt.FmtNumDefs Fmt.FmtTarDefs.
Import ListNotations.

Lemma skipn_skipn' : forall n m (l : list Z), skipn n (skipn m l) = skipn (m + n) l.
Proof.
  intros n m. revert n. induction m; intros n l; cbn [skipn plus]; [reflexivity|].
  destruct l; [rewrite !skipn_nil; reflexivity | apply IHm].
Qed.

Lemma slice_length : forall o n (l : list Z), o + n <= length l -> length (slice o n l) = n.
Proof. intros. unfold slice. rewrite firstn_length, skipn_length. lia. Qed.

Lemma slice_app_l : forall o n (l1 l2 : list Z), o + n <= length l1 -> slice o n (l1 ++ l2) = slice o n l1.
Proof.
  intros. unfold slice. rewrite skipn_app. rewrite firstn_app.
  rewrite skipn_length. replace (n - (length l1 - o)) with 0 by lia.
  cbn [firstn]. rewrite app_nil_r. reflexivity.
Qed.

Lemma slice_app_r : forall o n (l1 l2 : list Z), length l1 <= o -> slice o n (l1 ++ l2) = slice (o - length l1) n l2.
Proof.
  intros. unfold slice. rewrite skipn_app. rewrite (skipn_all2 l1) by lia. reflexivity.
Qed.

Lemma slice_firstn : forall o n k (l : list Z), o + n <= k -> slice o n (firstn k l) = slice o n l.
Proof.
  intros. unfold slice. rewrite skipn_firstn_comm. rewrite firstn_firstn. f_equal. lia.
Qed.

Lemma slice_skipn : forall o n k (l : list Z), slice o n (skipn k l) = slice (k + o) n l.
Proof. intros. unfold slice. rewrite skipn_skipn'. reflexivity. Qed.

Lemma slice_0_all : forall (l : list Z), slice 0 (length l) l = l.
Proof. intros. unfold slice. cbn [skipn]. apply firstn_all. Qed.

Lemma slice_split : forall o n m (l : list Z), slice o (n + m) l = slice o n l ++ slice (o + n) m l.
Proof.
  intros. unfold slice. rewrite <- (firstn_skipn n (firstn (n + m) (skipn o l))).
  rewrite firstn_firstn. replace (Init.Nat.min n (n + m)) with n by lia. f_equal.
  rewrite skipn_firstn_comm. replace (n + m - n) with m by lia. rewrite skipn_skipn'. reflexivity.
Qed.

Lemma put_length : forall off bs (buf : list Z), off + length bs <= length buf -> length (put off bs buf) = length buf.
Proof.
  intros. unfold put. rewrite !app_length, firstn_length, skipn_length. lia.
Qed.

Lemma slice_put_same : forall off bs (buf : list Z), off + length bs <= length buf ->
  slice off (length bs) (put off bs buf) = bs.
Proof.
  intros. unfold put. rewrite slice_app_r by (rewrite firstn_length; lia).
  rewrite firstn_length. replace (off - Init.Nat.min off (length buf)) with 0 by lia.
  rewrite slice_app_l by lia. apply slice_0_all.
Qed.

Lemma slice_put_other : forall off bs (buf : list Z) o n, off + length bs <= length buf ->
  (o + n <= off \/ off + length bs <= o) ->
  slice o n (put off bs buf) = slice o n buf.
Proof.
  intros off bs buf o n Hin [H|H]; unfold put.
  - rewrite slice_app_l by (rewrite firstn_length; lia). apply slice_firstn. lia.
  - rewrite slice_app_r by (rewrite firstn_length; lia).
    rewrite firstn_length. replace (Init.Nat.min off (length buf)) with off by lia.
    rewrite slice_app_r by lia. rewrite slice_skipn. f_equal. lia.
Qed.

Definition inb (L : nat) (w : wr) : Prop := fst w + length (snd w) <= L.
Definition away (o n : nat) (w : wr) : Prop := o + n <= fst w \/ fst w + length (snd w) <= o.

Lemma apply_writes_length : forall ws buf, Forall (inb (length buf)) ws -> length (apply_writes ws buf) = length buf.
Proof.
  induction ws as [|[o b] t IH]; intros buf HF; cbn [apply_writes]; [reflexivity|].
  inversion HF; subst. unfold inb in H1. cbn [fst snd] in H1.
  rewrite IH; rewrite put_length by assumption; [reflexivity | assumption].
Qed.

Lemma apply_writes_slice_other : forall ws buf o n,
  Forall (inb (length buf)) ws -> Forall (away o n) ws ->
  slice o n (apply_writes ws buf) = slice o n buf.
Proof.
  induction ws as [|[off b] t IH]; intros buf o n HI HA; cbn [apply_writes]; [reflexivity|].
  inversion HI; subst. inversion HA; subst. unfold inb, away in *. cbn [fst snd] in *.
  rewrite IH; try assumption.
  - apply slice_put_other; assumption.
  - rewrite put_length by assumption. assumption.
Qed.

Lemma apply_writes_app : forall ws1 ws2 buf, apply_writes (ws1 ++ ws2) buf = apply_writes ws2 (apply_writes ws1 buf).
Proof.
  induction ws1 as [|[o b] t IH]; intros; cbn [app apply_writes]; [reflexivity | apply IH].
Qed.

(* the bytes of one write survive if every later write stays away from it *)
Lemma apply_writes_field : forall ws1 off bs ws2 buf,
  Forall (inb (length buf)) (ws1 ++ (off, bs) :: ws2) -> Forall (away off (length bs)) ws2 ->
  slice off (length bs) (apply_writes (ws1 ++ (off, bs) :: ws2) buf) = bs.
Proof.
  intros ws1 off bs ws2 buf HI HA.
  apply Forall_app in HI. destruct HI as [HI1 HI2]. inversion HI2; subst.
  rewrite apply_writes_app. cbn [apply_writes].
  assert (HL : length (apply_writes ws1 buf) = length buf) by (apply apply_writes_length; assumption).
  unfold inb in H1. cbn [fst snd] in H1.
  rewrite apply_writes_slice_other.
  - apply slice_put_same. lia.
  - rewrite put_length by lia. rewrite HL. assumption.
  - assumption.
Qed.

Lemma Forall_wr_if : forall (P : wr -> Prop) c o b, (c = true -> P (o, b)) -> Forall P (wr_if c o b).
Proof. intros. unfold wr_if. destruct c; constructor; auto. Qed.

Lemma firstn_length_le : forall n (l : list Z), length (firstn n l) <= n.
Proof. intros. rewrite firstn_length. lia. Qed.

Lemma zeros_length : forall n, length (zeros n) = n.
Proof. intros. apply repeat_length. Qed.

(* ---- NUL-terminated strings in zero-filled fields ---- *)
Lemma cstr_app_nul : forall s rest, no_nul s -> cstr (s ++ 0%Z :: rest) = s.
Proof.
  induction s; intros rest H; cbn [app cstr].
  - reflexivity.
  - inversion H; subst. destruct (a =? 0)%Z eqn:E; [apply Z.eqb_eq in E; contradiction|].
    f_equal. apply IHs. assumption.
Qed.

Lemma cstr_no_nul : forall s, no_nul s -> cstr s = s.
Proof.
  induction s; intros H; cbn [cstr]; [reflexivity|].
  inversion H; subst. destruct (a =? 0)%Z eqn:E; [apply Z.eqb_eq in E; contradiction|].
  f_equal. apply IHs. assumption.
Qed.

Lemma cstr_app_zeros : forall s n, no_nul s -> cstr (s ++ zeros n) = s.
Proof.
  intros s n H. destruct n.
  - cbn [zeros repeat]. rewrite app_nil_r. apply cstr_no_nul. assumption.
  - cbn [zeros repeat]. apply cstr_app_nul. assumption.
Qed.

Lemma slice_slice : forall a k o n (l : list Z), a + k <= n -> slice a k (slice o n l) = slice (o + a) k l.
Proof.
  intros. unfold slice at 2. rewrite slice_firstn by lia. apply slice_skipn.
Qed.

Lemma skipn_repeat_z : forall a n (x : Z), skipn a (repeat x n) = repeat x (n - a).
Proof.
  induction a; intros n x; cbn [skipn].
  - rewrite Nat.sub_0_r. reflexivity.
  - destruct n; cbn [repeat]; [reflexivity | apply IHa].
Qed.

Lemma firstn_repeat_z : forall k n (x : Z), k <= n -> firstn k (repeat x n) = repeat x k.
Proof.
  induction k; intros n x H; cbn [firstn repeat]; [reflexivity|].
  destruct n; [lia|]. cbn [repeat]. f_equal. apply IHk. lia.
Qed.

Lemma slice_zeros : forall a k n, a + k <= n -> slice a k (zeros n) = zeros k.
Proof.
  intros. unfold slice, zeros. rewrite skipn_repeat_z. apply firstn_repeat_z. lia.
Qed.

(* a sub-range of a region known to be all zero *)
Lemma slice_of_zero_region : forall (l : list Z) o n a k,
  slice o n l = zeros n -> o <= a -> a + k <= o + n -> slice a k l = zeros k.
Proof.
  intros l o n a k Hz Ho Hk.
  replace a with (o + (a - o)) by lia. rewrite <- (slice_slice (a - o) k o n l) by lia.
  rewrite Hz. apply slice_zeros. lia.
Qed.

Lemma last_byte_app1 : forall (l : list Z) c, last_byte (l ++ [c]) = c.
Proof. intros. unfold last_byte. apply last_last. Qed.
