(* C01 - Reader is memory-safe and terminates on arbitrary input: the I/O core part.
   PARTIAL: the format/filter decoders are not modelled (DESIGN.md, C01); what is proved is that
   the windows handed to every parser lie inside the bytes the client delivered, that every core
   loop terminates (fuel sufficiency) and that no access of the core leaves its block/buffer. *)
From Coq Require Import List ZArith NArith Bool.
From LA Require Import Base.Val Gen.Defines IO.ReadCoreDefs IO.ReadCoreProofs.
Import ListNotations.
Local Open Scope N_scope.

(* every window consists only of bytes the client supplied (a prefix of what is still to come) and
   holds at least the [m] bytes asked for; the model's out-of-bounds flag stays clear *)
Theorem C01_ahead_in_bounds_partial : forall s m r s',
  Inv s -> ffatal s = false -> m <= two63 -> ahead s m = (r, s') ->
  oob s' = false /\
  match r with
  | Win w => prefix w (rest s) /\ m <= len w
  | Null a => a = Z.of_N (len (rest s)) /\ len (rest s) < m
  end.
Proof. exact ahead_in_bounds. Qed.
Print Assumptions C01_ahead_in_bounds_partial.

(* the for(;;) loop of read-ahead terminates: the fuel the model passes is never exhausted *)
Theorem C01_ahead_terminates_partial : forall s m r s',
  Inv s -> ffatal s = false -> m <= two63 -> ahead s m = (r, s') -> r <> Null OUT_OF_FUEL.
Proof. exact ahead_never_out_of_fuel. Qed.
Print Assumptions C01_ahead_terminates_partial.

(* the invariant (which includes oob = false, copy buffer within its capacity, client window
   within the current block) holds initially and is preserved by consume *)
Theorem C01_init_invariant_partial : forall c, nofault c -> Inv (init_filt c).
Proof. exact init_Inv. Qed.
Print Assumptions C01_init_invariant_partial.

Theorem C01_consume_in_bounds_partial : forall s req r s',
  Inv s -> ffatal s = false -> skippable (cl s) -> consume s req = (r, s') ->
  Inv s' /\ (r = req \/ r = ARCHIVE_FATAL).
Proof. exact consume_in_bounds. Qed.
Print Assumptions C01_consume_in_bounds_partial.

(* the buffer-doubling loop never overflows for requests up to 2^63 and yields room for min bytes *)
Theorem C01_grow_ok_partial : forall bs m, bs < m -> m <= two63 ->
  exists r, grow_size bs m = Some r /\ m <= r /\ bs <= r.
Proof. exact grow_size_ok. Qed.
Print Assumptions C01_grow_ok_partial.

(* the filter pipeline is bounded: for EVERY behaviour of the bidders and initialisers choose_filters
   pushes at most MAX_NUMBER_FILTERS (regenerated from archive_read.c) filters, succeeds only with
   strictly fewer, and terminates *)
Theorem C01_filters_bounded : forall bids init_ok probe_ok st d,
  choose_filters bids init_ok probe_ok = (st, d) ->
  (d <= N.to_nat MAX_NUMBER_FILTERS)%nat /\ (st = ARCHIVE_OK -> d < N.to_nat MAX_NUMBER_FILTERS)%nat.
Proof. exact choose_filters_bounded. Qed.
Print Assumptions C01_filters_bounded.

Example C01_nonvacuous :
  let c := mkClient (map N.of_nat (seq 0 20)) 0 [RSize 3; RSize 1; RSize 9] [] [] false false in
  nofault c /\ fst (ahead (init_filt c) 12) = Win (map N.of_nat (seq 0 12)).
Proof. split; [repeat constructor|vm_compute; reflexivity]. Qed.

(* ---- multi-volume input (IO/MultiNodeDefs.v) ---- *)
From LA Require IO.MultiNodeDefs IO.MultiNodeProofs.
Module MultiNode.
Import MultiNodeDefs MultiNodeProofs.
(* For EVERY set of data nodes, block size and script of reads and seeks - including seeks that are
   refused half-way through their walk over the nodes - the block the filter still holds was handed out
   by the node that is currently open: the buffer it lives in has not been released by a close.
   (False of the pinned code: client_switch_proxy kept the old node's block, and a seek that switched
   nodes and then failed left it in the filter - heap-use-after-free; repaired by a "fix:" commit.) *)
Theorem C01_multinode_block_owner_open : forall ns bs ops,
  Own (fst (mrun (mopen ns bs) ops)).
Proof. intros ns bs ops. apply mrun_Own, mopen_Own. Qed.
Print Assumptions C01_multinode_block_owner_open.
End MultiNode.

(* ---- the compress (.Z) read filter: an LZW decoder fed by hostile input (Codec/LzwDefs.v) ---- *)
From LA Require Codec.LzwDefs Codec.LzwProofs.
Module Lzw.
Import Codec.LzwDefs Codec.LzwProofs.
Local Open Scope N_scope.

(* whatever the parameters byte that compress_bidder_init accepts and whatever follows it, the decoder starts in a
   state that satisfies the invariant, with no array indexed outside its bounds *)
Theorem C01_lzw_init_invariant : forall flags rest s0,
  init_state flags rest = Some s0 -> Inv s0 /\ oob s0 = false.
Proof. exact init_inv. Qed.
Print Assumptions C01_lzw_init_invariant.

(* one next_code from ANY state that satisfies the invariant, on ANY remaining input: the invariant holds again,
   suffix[]/prefix[] (65536 entries) and mask[] (17) were indexed inside their bounds, the expansion of the code
   terminated having pushed at most 65282 bytes onto the 65300-byte stack, at least one byte came out, and the
   recursion on reset codes ends: "stuck" (the model's fuel running out) needs more fuel than there is input *)
Theorem C01_lzw_next_code_safe : forall fuel s r s', Inv s -> oob s = false -> next_code fuel s = (r, s') ->
  Inv s' /\ oob s' = false /\
  (forall out pushed, r = NOk out pushed -> pushed <= 65282 /\ out <> []) /\
  (r = NStuck -> (fuel <= length (inp s))%nat) /\
  (length (inp s') <= length (inp s))%nat.
Proof. exact next_code_safe. Qed.
Print Assumptions C01_lzw_next_code_safe.

(* 65282 < 65300: the stack is large enough *)
Theorem C01_lzw_stack_suffices : 65282 < STACK_SIZE.
Proof. reflexivity. Qed.
Print Assumptions C01_lzw_stack_suffices.

(* non-vacuity: a KwKwK chain decodes to a run; "next free entry, a literal, the same again" behind a reset code is
   refused (fatal, nothing delivered); the same three codes at the very start of the stream: compress_bidder_init
   ignores what its first next_code returns, the refused code is skipped and decoding goes on - inside the invariant *)
Example C01_lzw_nonvacuous :
  decode [144; 65; 2; 10; 28; 8] = Some ([[65; 65; 65; 65; 65; 65; 65; 65; 65; 65]], 0, false) /\
  decode [144; 65; 0; 2; 0; 0; 0; 1; 133; 4; 4] = Some ([], 1, false) /\
  decode [144; 1; 131; 4; 4; 0; 0; 0] = Some ([[65; 65; 65; 0; 0; 0]], 0, false).
Proof. vm_compute. repeat split; reflexivity. Qed.
End Lzw.
