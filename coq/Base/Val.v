(* Universal case/result value used by the correspondence protocol.
   One case per text line:  int = [-]hex digits, bytes = x<hex pairs>, list = ( v v ... ).
   The OCaml driver (ml/driver.ml) and the C harnesses (harness/val.h) parse and print
   exactly this syntax; every family exposes  run : val -> val . *)
From Coq Require Import List ZArith NArith Bool.
Import ListNotations.

Inductive val : Type :=
| VI (z : Z)
| VB (b : list N)
| VL (l : list val).

Definition byte := N.
Definition bytes := list N.

(* accessors with explicit defaults; a malformed case yields VErr on the model side, which
   can never equal an implementation line, so it surfaces as a disagreement. *)
Definition VErr (code : Z) : val := VL [VB [69%N; 82%N; 82%N]; VI code].

Definition as_z (v : val) : option Z := match v with VI z => Some z | _ => None end.
Definition as_b (v : val) : option bytes := match v with VB b => Some b | _ => None end.
Definition as_l (v : val) : option (list val) := match v with VL l => Some l | _ => None end.

Definition zval (v : val) : Z := match v with VI z => z | _ => 0%Z end.
Definition nval (v : val) : N := match v with VI z => Z.to_N z | _ => 0%N end.
Definition bval (v : val) : bytes := match v with VB b => b | _ => [] end.
Definition lval (v : val) : list val := match v with VL l => l | _ => [] end.
Definition boolval (v : val) : bool := match v with VI 0%Z => false | VI _ => true | _ => false end.

Definition vnth (l : list val) (i : nat) : val := nth i l (VI 0).
Definition VN (n : N) : val := VI (Z.of_N n).
Definition Vbool (b : bool) : val := VI (if b then 1 else 0)%Z.
Definition Vopt {A} (f : A -> val) (o : option A) : val :=
  match o with None => VL [] | Some a => VL [f a] end.
