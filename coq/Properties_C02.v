(* C02 - Write-then-read round trip preserves entries in every format.
   Byte level (this file): theorems over the Gallina transcriptions of the ustar / cpio odc / cpio newc
   header writers (coq/Fmt/Fmt{Tar,Cpio}Defs.v) and of the matching readers' header parsers
   (coq/Fmt/FmtParseDefs.v).  Both sides are tied to the C code by ./check C02: the writer model must produce
   the very bytes the real writers emit for generated entry lists with bodies and random write chunkings, the
   parser model must return what the real reader's getters return on those real archives.
   Spec level (all other formats, options, filters, block sizes): checked by the oracle of props/C02.py,
   not proved. *)
From Coq Require Import List ZArith Bool Lia.
From LA Require Import Gen.Defines Gen.FmtLayout Fmt.FmtNumDefs Fmt.FmtNumProofs Fmt.FmtTarDefs Fmt.FmtBufProofs
  Fmt.FmtTarProofs Fmt.FmtCpioDefs Fmt.FmtCpioProofs Fmt.FmtArDefs Fmt.FmtWriteDefs Fmt.FmtParseDefs Fmt.FmtParseProofs
  Fmt.FmtPaxProofs.
Import ListNotations.
Local Open Scope Z_scope.

(* ------------------------------------------------------------------ ustar header round trip *)
(* For every entry the strict ustar writer accepts (status 0), whose strings are NUL-free bytes and whose
   pathname is not split right behind a '/', the reader's header parser - checksum verification, magic,
   typeflag, every numeric field through tar_atol, prefix/name join, linkname, uname, gname - returns
   exactly the view the format keeps of the entry. *)
Theorem C02_ustar_header_roundtrip : forall e,
  fst (ustar_header e (-1) true) = 0 ->
  entry_bytes_ok e -> strings_no_nul e ->
  (forall i, ustar_split (ob (e_path e)) = Some i -> nth (i - 1) (ob (e_path e)) 0 <> slash) ->
  exists t, ustar_typeflag e (-1) = Some t /\
            ustar_parse_header (snd (ustar_header e (-1) true)) = Some (ustar_view e t).
Proof. exact ustar_header_roundtrip. Qed.
Print Assumptions C02_ustar_header_roundtrip.

(* the checksum the writer stores always verifies, whatever the header status *)
Theorem C02_ustar_checksum_verifies : forall e tt, entry_bytes_ok e -> (0 <= tt <= 255 \/ tt < 0) ->
  tar_checksum_ok (snd (ustar_header e tt true)) = true.
Proof. exact ustar_checksum_verifies. Qed.
Print Assumptions C02_ustar_checksum_verifies.

(* ustar_split_join: when the writer splits a long pathname, prefix ++ "/" ++ name is the pathname,
   the prefix has 1..155 bytes and the name 1..100 *)
Theorem C02_ustar_split_join : forall pp i,
  (USTAR_name_size < length pp)%nat -> fst (ustar_name_writes pp) = 0 -> ustar_split pp = Some i ->
  firstn i pp ++ [slash] ++ skipn (S i) pp = pp
  /\ (0 < length (firstn i pp) <= USTAR_prefix_size)%nat
  /\ (0 < length (skipn (S i) pp) <= USTAR_name_size)%nat.
Proof. exact ustar_split_join. Qed.
Print Assumptions C02_ustar_split_join.

(* every header is exactly one 512-byte block *)
Theorem C02_ustar_header_length : forall e tt, length (snd (ustar_header e tt true)) = 512%nat.
Proof. exact ustar_header_length. Qed.
Print Assumptions C02_ustar_header_length.

(* ------------------------------------------------------------------ bodies: any partition into write calls *)
(* archive_write_data clamps every call to the bytes that remain: the bytes emitted and the total accepted
   depend only on the concatenation of the buffers, not on how the client cut it *)
Theorem C02_body_chunking_irrelevant : forall c1 c2 rem, 0 <= rem -> concat c1 = concat c2 ->
  data_chunks rem c1 = data_chunks rem c2.
Proof. exact body_chunking_irrelevant. Qed.
Print Assumptions C02_body_chunking_irrelevant.

Theorem C02_body_is_prefix_of_data : forall chunks rem, 0 <= rem ->
  fst (data_chunks rem chunks) = Z.min rem (lenZ (concat chunks))
  /\ snd (data_chunks rem chunks) = firstn (Z.to_nat rem) (concat chunks).
Proof. exact data_chunks_total. Qed.
Print Assumptions C02_body_is_prefix_of_data.

(* ------------------------------------------------------------------ fixed point *)
(* norm_ustar = what the writer makes of an entry before encoding it (non-regular files and links get size 0,
   directories a trailing '/').  It is idempotent, and writing the normalised entry gives byte for byte the
   output of the original one: the read-back form is a fixed point. *)
Theorem C02_norm_ustar_idempotent : forall e, norm_ustar (norm_ustar e) = norm_ustar e.
Proof. exact norm_ustar_idem. Qed.
Print Assumptions C02_norm_ustar_idempotent.
Theorem C02_ustar_fixed_point : forall full e, ustar_entry full (norm_ustar e) = ustar_entry full e.
Proof. exact ustar_entry_norm_fixed. Qed.
Print Assumptions C02_ustar_fixed_point.

(* ------------------------------------------------------------------ cpio: every header field decodes *)
(* odc: each field of the 76-byte block, read by the reader's atol8, is the value when it is in the field's
   range (and the saturated maximum otherwise - C10) *)
Theorem C02_odc_uid_roundtrip : forall ino e, 0 <= e_uid e < zpow 8 ODC_c_uid_size ->
  cpio_atol8 (slice R_odc_uid_offset R_odc_uid_size (odc_block ino e)) = e_uid e.
Proof.
  intros ino e H. change R_odc_uid_offset with ODC_c_uid_offset. change R_odc_uid_size with ODC_c_uid_size.
  rewrite odc_slice_uid. rewrite odc_field_decodes by (unfold ODC_c_uid_size; lia).
  replace ((0 <=? e_uid e) && (e_uid e <? zpow 8 ODC_c_uid_size)) with true; [reflexivity|].
  symmetry. apply andb_true_iff. split; [apply Z.leb_le | apply Z.ltb_lt]; lia.
Qed.
Print Assumptions C02_odc_uid_roundtrip.
Theorem C02_odc_mtime_roundtrip : forall ino e, 0 <= e_mtime e < zpow 8 ODC_c_mtime_size ->
  cpio_atol8 (slice R_odc_mtime_offset R_odc_mtime_size (odc_block ino e)) = e_mtime e.
Proof.
  intros ino e H. change R_odc_mtime_offset with ODC_c_mtime_offset. change R_odc_mtime_size with ODC_c_mtime_size.
  rewrite odc_slice_mtime. rewrite odc_field_decodes by (unfold ODC_c_mtime_size; lia).
  replace ((0 <=? e_mtime e) && (e_mtime e <? zpow 8 ODC_c_mtime_size)) with true; [reflexivity|].
  symmetry. apply andb_true_iff. split; [apply Z.leb_le | apply Z.ltb_lt]; lia.
Qed.
Print Assumptions C02_odc_mtime_roundtrip.
Theorem C02_odc_filesize_roundtrip : forall st e st' ret out rem,
  odc_write_header st e = (st', ret, out, rem) -> ST_WARN <= ret ->
  cpio_atol8 (slice ODC_c_filesize_offset ODC_c_filesize_size (firstn 76 out))
  = if (0 <? length (sym_of e))%nat then lenZ (sym_of e) else body_size e.
Proof. exact odc_ok_filesize. Qed.
Print Assumptions C02_odc_filesize_roundtrip.

Theorem C02_newc_uid_roundtrip : forall e, 0 <= e_uid e < zpow 16 NEWC_c_uid_size ->
  cpio_atol16 (slice R_newc_uid_offset R_newc_uid_size (newc_block e)) = e_uid e.
Proof.
  intros e H. change R_newc_uid_offset with NEWC_c_uid_offset. change R_newc_uid_size with NEWC_c_uid_size.
  rewrite newc_slice_uid. rewrite newc_field_decodes by (unfold NEWC_c_uid_size; lia).
  replace ((0 <=? e_uid e) && (e_uid e <? zpow 16 NEWC_c_uid_size)) with true; [reflexivity|].
  symmetry. apply andb_true_iff. split; [apply Z.leb_le | apply Z.ltb_lt]; lia.
Qed.
Print Assumptions C02_newc_uid_roundtrip.
Theorem C02_newc_mtime_roundtrip : forall e, 0 <= e_mtime e < zpow 16 NEWC_c_mtime_size ->
  cpio_atol16 (slice R_newc_mtime_offset R_newc_mtime_size (newc_block e)) = e_mtime e.
Proof.
  intros e H. change R_newc_mtime_offset with NEWC_c_mtime_offset. change R_newc_mtime_size with NEWC_c_mtime_size.
  rewrite newc_slice_mtime. rewrite newc_field_decodes by (unfold NEWC_c_mtime_size; lia).
  replace ((0 <=? e_mtime e) && (e_mtime e <? zpow 16 NEWC_c_mtime_size)) with true; [reflexivity|].
  symmetry. apply andb_true_iff. split; [apply Z.leb_le | apply Z.ltb_lt]; lia.
Qed.
Print Assumptions C02_newc_mtime_roundtrip.
Theorem C02_newc_filesize_roundtrip : forall e ret out rem,
  newc_write_header e = (ret, out, rem) -> ST_WARN <= ret ->
  cpio_atol16 (slice NEWC_c_filesize_offset NEWC_c_filesize_size (firstn 110 out))
  = if (0 <? length (sym_of e))%nat then lenZ (sym_of e) else body_size e.
Proof. exact newc_ok_filesize. Qed.
Print Assumptions C02_newc_filesize_roundtrip.

(* ------------------------------------------------------------------ pax record layer *)
(* "<len> <key>=<value>\n": the decimal number written in front is the length of the whole record, and it is
   what a reader parses from the record (for every key/value with a total below 10^9, the range in which the
   C code's int arithmetic is defined) *)
Theorem C02_pax_record_len : forall key value,
  1 + lenZ key + 1 + lenZ value + 1 < 1000000000 ->
  lenZ (pax_record key value) = pax_record_total key value
  /\ atoi_dec (pax_record key value) 0 = lenZ (pax_record key value).
Proof. exact pax_record_len. Qed.
Print Assumptions C02_pax_record_len.

(* ------------------------------------------------------------------ whole archives, by computation *)
(* PARTIAL: the entry-list round trip  parse (write es) = map view es  is proved for single headers above and
   checked (not proved) for lists by the correspondence run; here it is exhibited by the kernel on a concrete
   list mixing a 256-byte split pathname, a directory, a symlink and bodies of 0, 1 and 513 bytes, for the
   three modelled formats. *)
Definition ex_list : list entry :=
  [ mkEntry (Some (repeat 97 155 ++ [47] ++ repeat 98 100)) None None (Some [117]) (Some [103]) (IFREG + 420) 262143 1 (Some 513)
            8589934591 3 7 1 0 [repeat 65 500; repeat 66 13];
    mkEntry (Some [100]) None None None None (IFDIR + 493) 0 0 (Some 0) 5 3 8 1 0 [];
    mkEntry (Some [108]) None (Some [116; 47; 120]) None None (IFLNK + 511) 1 2 (Some 0) 6 3 9 1 0 [];
    mkEntry (Some [101]) None None None None (IFREG + 384) 1 2 (Some 0) 6 3 10 1 0 [];
    mkEntry (Some [111]) None None None None (IFREG + 384) 1 2 (Some 1) 7 3 11 1 0 [[90]] ].

Example C02_ustar_archive_roundtrip_example :
  match ustar_parse_archive 100 (archive_of Ustar ex_list) with
  | Some l => map (fun vb => (pv_path (fst vb), pv_size (fst vb), length (snd vb))) l
              = [(repeat 97 155 ++ [47] ++ repeat 98 100, 513, 513%nat); ([100; 47], 0, 0%nat); ([108], 0, 0%nat);
                 ([101], 0, 0%nat); ([111], 1, 1%nat)]
              /\ map (fun vb => pv_link (fst vb)) l = [[]; []; [116; 47; 120]; []; []]
  | None => False
  end.
Proof. vm_compute. split; reflexivity. Qed.

Example C02_newc_archive_roundtrip_example :
  match cpio_parse_archive newc_parse_entry 100 (archive_of Newc ex_list) with
  | Some l => map (fun vb => (pv_path (fst vb), pv_uid (fst vb), pv_mtime (fst vb), length (snd vb))) l
              = [(repeat 97 155 ++ [47] ++ repeat 98 100, 262143, 4294967295, 513%nat); ([100], 0, 5, 0%nat); ([108], 1, 6, 0%nat);
                 ([101], 1, 6, 0%nat); ([111], 1, 7, 1%nat)]
  | None => False
  end.
Proof. vm_compute. reflexivity. Qed.

Example C02_odc_archive_roundtrip_example :
  match cpio_parse_archive odc_parse_entry 100 (archive_of Odc ex_list) with
  | Some l => map (fun vb => (pv_path (fst vb), pv_uid (fst vb), pv_mtime (fst vb), length (snd vb))) l
              = [(repeat 97 155 ++ [47] ++ repeat 98 100, 262143, 8589934591, 513%nat); ([100], 0, 5, 0%nat); ([108], 1, 6, 0%nat);
                 ([101], 1, 6, 0%nat); ([111], 1, 7, 1%nat)]
  | None => False
  end.
Proof. vm_compute. reflexivity. Qed.
