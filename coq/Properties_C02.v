(* C02 - placeholder while the development is built *)
From Coq Require Import List ZArith.
From LA Require Import Fmt.FmtNumDefs.
Theorem C02_placeholder : True. Proof. exact I. Qed.
Print Assumptions C02_placeholder.
