(* Executable model of libarchive/archive_pathmatch.c (pm_list, pm_slashskip, pm,
   __archive_pathmatch) and of the criteria part of libarchive/archive_match.c (path_excluded with
   its bookkeeping, the unmatched-inclusion iterator, time_excluded, add_owner_id/match_owner_id,
   owner_excluded).  Definitions only; lemmas are in PathmatchProofs.v.

   A C string is a [list N] of its bytes; the terminating NUL sits at index [length].  EVERY
   dereference of the C code is a call of [rd]: index < length gives the byte, index = length gives
   0, index > length is an out-of-bounds read and yields [OobRead], which every caller propagates.
   Pointers are indices into the one pattern list and the one subject list (the C code only ever
   passes pointers into the two original strings).  `char` is signed (x86-64 SysV), which only
   matters for the range test of pm_list ([sc]).

   Loops are structural recursions on an explicit fuel; running out of fuel yields [OutOfFuel]
   (shown unreachable in PathmatchProofs.v).

   [guard] selects the shape of `case '['` in pm(): [true] = the class branch first fails when
   `*s == '\0'` (fixes/C16-class-at-end.diff), [false] = the class is tried against the NUL as well
   (the tree before that repair).  translators/gen_pathmatch.py reads which one the tree has. *)
From Coq Require Import List ZArith NArith Bool.
Import ListNotations.
Local Open Scope N_scope.

Inductive res (A : Type) : Type :=
| Ok (a : A)
| OobRead          (* a read at an index > length of the string *)
| OutOfFuel.       (* the loop bound of the model was too small *)
Arguments Ok {A} a.
Arguments OobRead {A}.
Arguments OutOfFuel {A}.

Definition bind {A B} (m : res A) (f : A -> res B) : res B :=
  match m with
  | Ok a => f a
  | OobRead => OobRead
  | OutOfFuel => OutOfFuel
  end.
Notation "'do' x <- e ;; f" := (bind e (fun x => f))
  (at level 200, x ident, e at level 100, f at level 200, right associativity).

(* the one and only way to look at a string *)
Definition rd (l : list N) (i : nat) : res N :=
  match Nat.compare i (length l) with
  | Lt => Ok (nth i l 0)
  | Eq => Ok 0
  | Gt => OobRead
  end.

Definition c_bang : N := 33.     (* ! *)
Definition c_dollar : N := 36.   (* $ *)
Definition c_star : N := 42.     (* * *)
Definition c_dash : N := 45.     (* - *)
Definition c_dot : N := 46.      (* . *)
Definition c_slash : N := 47.    (* / *)
Definition c_qmark : N := 63.    (* ? *)
Definition c_lbrack : N := 91.   (* [ *)
Definition c_bslash : N := 92.   (* \ *)
Definition c_rbrack : N := 93.   (* ] *)
Definition c_caret : N := 94.    (* ^ *)

(* value of a byte as a (signed) char *)
Definition sc (c : N) : Z := if c <? 128 then Z.of_N c else (Z.of_N c - 256)%Z.

(* flags & PATHMATCH_NO_ANCHOR_START (1), flags & PATHMATCH_NO_ANCHOR_END (2) *)
Definition no_anchor_start (flags : N) : bool := N.testbit flags 0.
Definition no_anchor_end (flags : N) : bool := N.testbit flags 1.

Definition pfuel (p : list N) : nat := length p + 2.
Definition sfuel (s : list N) : nat := length s + 2.

(* ---------------------------------------------------------------- pm_list *)
(* the while loop of pm_list; [rs] = rangeStart, [mt]/[nm] = match/nomatch *)
Fixpoint pm_list_loop (k : nat) (p : list N) (pi e : nat) (rs c : N) (mt nm : bool) : res bool :=
  match k with
  | O => OutOfFuel
  | S k' =>
    if (pi <? e)%nat then
      do ch <- rd p pi ;;
      if ch =? c_dash then
        (* Trailing or initial '-' is not special. *)
        if (rs =? 0) || (pi =? e - 1)%nat then
          if ch =? c then Ok mt else pm_list_loop k' p (pi + 1) e 0 c mt nm
        else
          do re <- rd p (pi + 1) ;;                       (* rangeEnd = *++p *)
          if re =? c_bslash then
            do re2 <- rd p (pi + 2) ;;                    (* rangeEnd = *++p *)
            if (sc rs <=? sc c)%Z && (sc c <=? sc re2)%Z then Ok mt
            else pm_list_loop k' p (pi + 3) e 0 c mt nm
          else
            if (sc rs <=? sc c)%Z && (sc c <=? sc re)%Z then Ok mt
            else pm_list_loop k' p (pi + 2) e 0 c mt nm
      else if ch =? c_bslash then
        do ch2 <- rd p (pi + 1) ;;                        (* ++p; fall through *)
        if ch2 =? c then Ok mt else pm_list_loop k' p (pi + 2) e ch2 c mt nm
      else
        if ch =? c then Ok mt else pm_list_loop k' p (pi + 1) e ch c mt nm
    else Ok nm
  end.

(* pm_list(start, end, c, flags) *)
Definition pm_list (p : list N) (start e : nat) (c : N) : res bool :=
  do c0 <- rd p start ;;                                  (* *p is read before p < end is tested *)
  if ((c0 =? c_bang) || (c0 =? c_caret)) && (start <? e)%nat
  then pm_list_loop (S (e - start)) p (start + 1) e 0 c false true
  else pm_list_loop (S (e - start)) p start e 0 c true false.

(* ---------------------------------------------------------------- small loops *)
(* pm_slashskip *)
Fixpoint slashskip (k : nat) (s : list N) (i : nat) : res nat :=
  match k with
  | O => OutOfFuel
  | S k' =>
    do c0 <- rd s i ;;
    if c0 =? c_slash then slashskip k' s (i + 1)
    else if c0 =? c_dot then
      do c1 <- rd s (i + 1) ;;
      if (c1 =? c_slash) || (c1 =? 0) then slashskip k' s (i + 1) else Ok i
    else Ok i
  end.

(* while ( *x == ch) ++x; *)
Fixpoint skip_char (k : nat) (ch : N) (l : list N) (i : nat) : res nat :=
  match k with
  | O => OutOfFuel
  | S k' => do c <- rd l i ;; if c =? ch then skip_char k' ch l (i + 1) else Ok i
  end.

(* the scan for the end of a [...] class in pm() *)
Fixpoint class_end (k : nat) (p : list N) (e : nat) : res nat :=
  match k with
  | O => OutOfFuel
  | S k' =>
    do c <- rd p e ;;
    if (c =? 0) || (c =? c_rbrack) then Ok e
    else if c =? c_bslash then
      do c1 <- rd p (e + 1) ;;
      if negb (c1 =? 0) then class_end k' p (e + 2) else class_end k' p (e + 1)
    else class_end k' p (e + 1)
  end.

(* strchr(s, '/') : None = NULL *)
Fixpoint strchr_slash (k : nat) (s : list N) (i : nat) : res (option nat) :=
  match k with
  | O => OutOfFuel
  | S k' =>
    do c <- rd s i ;;
    if c =? c_slash then Ok (Some i)
    else if c =? 0 then Ok None
    else strchr_slash k' s (i + 1)
  end.

(* while ( *s) { if (archive_pathmatch(p, s, flags)) return 1; ++s; } return 0; *)
Fixpoint star_loop (k : nat) (f : nat -> res bool) (s : list N) (si : nat) : res bool :=
  match k with
  | O => OutOfFuel
  | S k' =>
    do c <- rd s si ;;
    if c =? 0 then Ok false
    else do r <- f si ;; if r then Ok true else star_loop k' f s (si + 1)
  end.

(* for ( ; s != NULL; s = strchr(s, '/')) { if ( *s == '/') s++; if (pm(p, s, flags)) return 1; } return 0; *)
Fixpoint anchor_loop (k : nat) (f : nat -> res bool) (s : list N) (si : nat) : res bool :=
  match k with
  | O => OutOfFuel
  | S k' =>
    do c <- rd s si ;;
    let si1 := if c =? c_slash then (si + 1)%nat else si in
    do r <- f si1 ;;
    if r then Ok true
    else
      do o <- strchr_slash (sfuel s) s si1 ;;
      match o with
      | None => Ok false
      | Some j => anchor_loop k' f s j
      end
  end.

(* ---------------------------------------------------------------- __archive_pathmatch *)
(* body of __archive_pathmatch with the function it calls for pm() as a parameter
   (p and s are never NULL in the model) *)
Definition apm_with (pmf : nat -> nat -> N -> res bool) (p s : list N) (pi si : nat) (flags : N)
  : res bool :=
  do p0 <- rd p pi ;;
  if p0 =? 0 then (do s0 <- rd s si ;; Ok (s0 =? 0))     (* Empty pattern only matches the empty string. *)
  else
    (* Leading '^' anchors the start of the pattern. *)
    let pi1 := if p0 =? c_caret then (pi + 1)%nat else pi in
    let fl1 := if p0 =? c_caret then N.clearbit flags 0 else flags in
    do p1 <- rd p pi1 ;;
    do reject <- (if p1 =? c_slash then (do s0 <- rd s si ;; Ok (negb (s0 =? c_slash))) else Ok false) ;;
    if reject then Ok false
    else if (p1 =? c_star) || (p1 =? c_slash) then
      (* Certain patterns anchor implicitly. *)
      do pi2 <- skip_char (pfuel p) c_slash p pi1 ;;
      do si2 <- skip_char (sfuel s) c_slash s si ;;
      pmf pi2 si2 fl1
    else if no_anchor_start fl1 then
      anchor_loop (sfuel s) (fun si' => pmf pi1 si' fl1) s si
    else pmf pi1 si fl1.

(* the lines of pm() before its for(;;) *)
Definition pm_prologue (loopf : nat -> nat -> res bool) (p s : list N) (pi si : nat) : res bool :=
  do s0 <- rd s si ;;
  do si1 <- (if s0 =? c_dot
          then (do s1 <- rd s (si + 1) ;; if s1 =? c_slash then slashskip (sfuel s) s (si + 1) else Ok si)
          else Ok si) ;;
  do p0 <- rd p pi ;;
  do pi1 <- (if p0 =? c_dot
          then (do p1 <- rd p (pi + 1) ;; if p1 =? c_slash then slashskip (pfuel p) p (pi + 1) else Ok pi)
          else Ok pi) ;;
  loopf pi1 si1.

(* the for(;;) of pm(); one unit of fuel per iteration and per level of recursion through '*' *)
Fixpoint pm_loop (guard : bool) (n : nat) (p s : list N) (flags : N) (pi si : nat) {struct n}
  : res bool :=
  match n with
  | O => OutOfFuel
  | S n' =>
    let continue := pm_loop guard n' p s flags in
    let apm := apm_with (fun pi' si' fl' => pm_prologue (pm_loop guard n' p s fl') p s pi' si') p s in
    do pc <- rd p pi ;;
    if pc =? 0 then
      do s0 <- rd s si ;;
      if s0 =? c_slash then
        if no_anchor_end flags then Ok true
        else (do si1 <- slashskip (sfuel s) s si ;; do s1 <- rd s si1 ;; Ok (s1 =? 0))
      else Ok (s0 =? 0)
    else if pc =? c_qmark then
      (* ? always succeeds, unless we hit end of 's' *)
      do s0 <- rd s si ;;
      if s0 =? 0 then Ok false else continue (pi + 1)%nat (si + 1)%nat
    else if pc =? c_star then
      do pi1 <- skip_char (pfuel p) c_star p pi ;;
      do p1 <- rd p pi1 ;;
      if p1 =? 0 then Ok true                          (* Trailing '*' always succeeds. *)
      else star_loop (sfuel s) (fun si' => apm pi1 si' flags) s si
    else if pc =? c_lbrack then
      do e <- class_end (pfuel p) p (pi + 1) ;;
      do ec <- rd p e ;;
      if ec =? c_rbrack then
        do s0 <- rd s si ;;
        if guard && (s0 =? 0) then Ok false            (* only in the repaired tree *)
        else
          do m <- pm_list p (pi + 1) e s0 ;;
          if m then continue (e + 1)%nat (si + 1)%nat  (* p = end; ...; ++p; ++s *)
          else Ok false
      else
        (* No final ']', so just match '['. *)
        do s0 <- rd s si ;;
        if negb (pc =? s0) then Ok false else continue (pi + 1)%nat (si + 1)%nat
    else if pc =? c_bslash then
      do p1 <- rd p (pi + 1) ;;
      if p1 =? 0 then
        (* Trailing '\\' matches itself. *)
        do s0 <- rd s si ;;
        if negb (s0 =? c_bslash) then Ok false else continue (pi + 1)%nat (si + 1)%nat
      else
        do s0 <- rd s si ;;
        if negb (p1 =? s0) then Ok false else continue (pi + 2)%nat (si + 1)%nat
    else if pc =? c_slash then
      do s0 <- rd s si ;;
      if negb (s0 =? c_slash) && negb (s0 =? 0) then Ok false
      else
        do pi1 <- slashskip (pfuel p) p pi ;;
        do si1 <- slashskip (sfuel s) s si ;;
        do p1 <- rd p pi1 ;;
        if (p1 =? 0) && no_anchor_end flags then Ok true
        else continue pi1 si1                          (* --p; --s; then ++p; ++s *)
    else
      do special <- (if pc =? c_dollar
                  then (do p1 <- rd p (pi + 1) ;; Ok ((p1 =? 0) && no_anchor_end flags))
                  else Ok false) ;;
      if special then (do si1 <- slashskip (sfuel s) s si ;; do s1 <- rd s si1 ;; Ok (s1 =? 0))
      else
        do s0 <- rd s si ;;
        if negb (pc =? s0) then Ok false else continue (pi + 1)%nat (si + 1)%nat
  end.

Definition pm_fuel (p : list N) : nat := S (length p).

(* pm(p + pi, s + si, flags) *)
Definition pm_gen (guard : bool) (p s : list N) (pi si : nat) (flags : N) : res bool :=
  pm_prologue (pm_loop guard (pm_fuel p) p s flags) p s pi si.

(* __archive_pathmatch(p, s, flags) *)
Definition archive_pathmatch_gen (guard : bool) (p s : list N) (flags : N) : res bool :=
  apm_with (pm_gen guard p s) p s 0 0 flags.

(* ---------------------------------------------------------------- archive_match: owner ids *)
(* for (i = 0; i < count; i++) if (ids[i] >= id) break; *)
Fixpoint insert_point (l : list Z) (id : Z) : nat :=
  match l with
  | [] => O
  | x :: t => if (x >=? id)%Z then O else S (insert_point t id)
  end.

Definition add_owner_id (l : list Z) (id : Z) : list Z :=
  let i := insert_point l id in
  if (i =? length l)%nat then l ++ [id]
  else if (nth i l 0 =? id)%Z then l
  else firstn i l ++ id :: skipn i l.                   (* memmove + store *)

(* match_owner_id: reads of ids[m] are checked against count *)
Fixpoint bsearch (k : nat) (l : list Z) (id : Z) (t b : nat) : res bool :=
  match k with
  | O => OutOfFuel
  | S k' =>
    if (t <? b)%nat then
      let m := Nat.div2 (t + b) in
      match nth_error l m with
      | None => OobRead
      | Some x =>
        if (x =? id)%Z then Ok true
        else if (x <? id)%Z then bsearch k' l id (m + 1) b
        else bsearch k' l id t m
      end
    else Ok false
  end.

Definition match_owner_id (l : list Z) (id : Z) : res bool :=
  bsearch (S (length l)) l id 0 (length l).

(* ---------------------------------------------------------------- archive_match: times *)
Definition AM_MTIME : N := 256.
Definition AM_CTIME : N := 512.
Definition AM_NEWER : N := 1.
Definition AM_OLDER : N := 2.
Definition AM_EQUAL : N := 16.
Definition has (flag bit : N) : bool := negb (N.land flag bit =? 0).

(* one `if (a->newer_X_filter) {...}` block of time_excluded: true = return 1 *)
Definition newer_excludes (filter : N) (fsec fnsec sec nsec : Z) : bool :=
  if filter =? 0 then false
  else if (sec <? fsec)%Z then true
  else if (sec =? fsec)%Z then
    if (nsec <? fnsec)%Z then true
    else (nsec =? fnsec)%Z && negb (has filter AM_EQUAL)
  else false.

Definition older_excludes (filter : N) (fsec fnsec sec nsec : Z) : bool :=
  if filter =? 0 then false
  else if (sec >? fsec)%Z then true
  else if (sec =? fsec)%Z then
    if (nsec >? fnsec)%Z then true
    else (nsec =? fnsec)%Z && negb (has filter AM_EQUAL)
  else false.

(* the per-pathname comparison at the end of time_excluded, for one of ctime/mtime *)
Definition file_time_excludes (flag : N) (fsec fnsec sec nsec : Z) : bool :=
  if (fsec >? sec)%Z then has flag AM_OLDER
  else if (fsec <? sec)%Z then has flag AM_NEWER
  else if (fnsec >? nsec)%Z then has flag AM_OLDER
  else if (fnsec <? nsec)%Z then has flag AM_NEWER
  else has flag AM_EQUAL.

Record tfilter := mkTf { tf_flag : N; tf_sec : Z; tf_nsec : Z }.
Definition tf_none : tfilter := mkTf 0 0 0.

Record match_file := mkMf {
  mf_path : list N; mf_flag : N;
  mf_msec : Z; mf_mnsec : Z; mf_csec : Z; mf_cnsec : Z }.

(* ---------------------------------------------------------------- archive_match: state *)
Definition PATTERN_IS_SET : N := 1.
Definition TIME_IS_SET : N := 2.
Definition ID_IS_SET : N := 4.
Definition ARCHIVE_OK_ : Z := 0%Z.
Definition ARCHIVE_EOF_ : Z := 1%Z.
Definition ARCHIVE_FAILED_ : Z := (-25)%Z.

Record mstate := mkMs {
  setflag : N;
  recursive_include : bool;
  inclusions : list (list N * bool);      (* pattern, matched *)
  exclusions : list (list N);
  unmatched_count : Z;                    (* inclusions.unmatched_count *)
  unmatched_next : option nat;            (* inclusions.unmatched_next as an index; None = NULL *)
  unmatched_eof : bool;
  newer_mtime : tfilter; newer_ctime : tfilter; older_mtime : tfilter; older_ctime : tfilter;
  exclusion_files : list match_file;      (* exclusion_tree (keyed by pathname, strcmp) *)
  uids : list Z; gids : list Z;
  unames : list (list N); gnames : list (list N)
}.

Definition ms_init : mstate :=
  mkMs 0 true [] [] 0 None false tf_none tf_none tf_none tf_none [] [] [] [] [].

Definition set_incl (a : mstate) (l : list (list N * bool)) (uc : Z) : mstate :=
  mkMs (setflag a) (recursive_include a) l (exclusions a) uc (unmatched_next a) (unmatched_eof a)
       (newer_mtime a) (newer_ctime a) (older_mtime a) (older_ctime a) (exclusion_files a)
       (uids a) (gids a) (unames a) (gnames a).

(* add_pattern_mbs: Both "foo/" and "foo" should match "foo/bar". *)
Definition strip_slash (pat : list N) : list N :=
  match rev pat with
  | c :: r => if c =? c_slash then rev r else pat
  | [] => pat
  end.

Definition include_pattern (a : mstate) (pat : list N) : mstate * Z :=
  match pat with
  | [] => (a, ARCHIVE_FAILED_)
  | _ =>
    (mkMs (N.lor (setflag a) PATTERN_IS_SET) (recursive_include a)
          (inclusions a ++ [(strip_slash pat, false)]) (exclusions a) (unmatched_count a + 1)
          (unmatched_next a) (unmatched_eof a)
          (newer_mtime a) (newer_ctime a) (older_mtime a) (older_ctime a) (exclusion_files a)
          (uids a) (gids a) (unames a) (gnames a), ARCHIVE_OK_)
  end.

Definition exclude_pattern (a : mstate) (pat : list N) : mstate * Z :=
  match pat with
  | [] => (a, ARCHIVE_FAILED_)
  | _ =>
    (mkMs (N.lor (setflag a) PATTERN_IS_SET) (recursive_include a)
          (inclusions a) (exclusions a ++ [strip_slash pat]) (unmatched_count a)
          (unmatched_next a) (unmatched_eof a)
          (newer_mtime a) (newer_ctime a) (older_mtime a) (older_ctime a) (exclusion_files a)
          (uids a) (gids a) (unames a) (gnames a), ARCHIVE_OK_)
  end.

Definition set_recursion (a : mstate) (b : bool) : mstate :=
  mkMs (setflag a) b (inclusions a) (exclusions a) (unmatched_count a)
       (unmatched_next a) (unmatched_eof a)
       (newer_mtime a) (newer_ctime a) (older_mtime a) (older_ctime a) (exclusion_files a)
       (uids a) (gids a) (unames a) (gnames a).

Section WithGuard.
Variable guard : bool.

Definition match_path_inclusion (rec : bool) (pat path : list N) : res bool :=
  archive_pathmatch_gen guard pat path (if rec then 2 else 0).
Definition match_path_exclusion (pat path : list N) : res bool :=
  archive_pathmatch_gen guard pat path 3.

(* first loop of path_excluded: mark off unmatched inclusions.
   result: new list, number newly marked, whether any was marked *)
Fixpoint mark_inclusions (rec : bool) (l : list (list N * bool)) (path : list N)
  : res (list (list N * bool) * Z * bool) :=
  match l with
  | [] => Ok ([], 0%Z, false)
  | (pat, m) :: t =>
    do r <- (if m then Ok false else match_path_inclusion rec pat path) ;;
    do x <- mark_inclusions rec t path ;;
    let '(t', n, any) := x in
    if r then Ok ((pat, true) :: t', (n + 1)%Z, true) else Ok ((pat, m) :: t', n, any)
  end.

Fixpoint any_exclusion (l : list (list N)) (path : list N) : res bool :=
  match l with
  | [] => Ok false
  | pat :: t => do r <- match_path_exclusion pat path ;; if r then Ok true else any_exclusion t path
  end.

(* third loop: inclusions that were already matched *)
Fixpoint any_matched_inclusion (rec : bool) (l : list (list N * bool)) (path : list N) : res bool :=
  match l with
  | [] => Ok false
  | (pat, m) :: t =>
    do r <- (if m then match_path_inclusion rec pat path else Ok false) ;;
    if r then Ok true else any_matched_inclusion rec t path
  end.

Definition path_excluded (a : mstate) (path : list N) : res (mstate * Z) :=
  do x <- mark_inclusions (recursive_include a) (inclusions a) path ;;
  let '(l', n, any) := x in
  let a' := set_incl a l' (unmatched_count a - n) in
  do ex <- any_exclusion (exclusions a) path ;;
  if ex then Ok (a', 1%Z)                                (* Exclusions take priority *)
  else if any then Ok (a', 0%Z)
  else
    do r <- any_matched_inclusion (recursive_include a) l' path ;;
    if r then Ok (a', 0%Z)
    else match l' with
         | [] => Ok (a', 0%Z)                            (* No explicit inclusions, default is to match. *)
         | _ => Ok (a', 1%Z)                             (* If there were inclusions, default is to exclude. *)
         end.

(* archive_match_path_excluded *)
Definition api_path_excluded (a : mstate) (path : list N) : res (mstate * Z) :=
  if N.land (setflag a) PATTERN_IS_SET =? 0 then Ok (a, 0%Z) else path_excluded a path.
End WithGuard.

(* match_list_unmatched_inclusions_next on the inclusion list *)
Fixpoint first_unmatched (l : list (list N * bool)) (i : nat) : option (nat * list N) :=
  match l with
  | [] => None
  | (pat, m) :: t => if m then first_unmatched t (S i) else Some (i, pat)
  end.

Definition set_iter (a : mstate) (nx : option nat) (eof : bool) : mstate :=
  mkMs (setflag a) (recursive_include a) (inclusions a) (exclusions a) (unmatched_count a) nx eof
       (newer_mtime a) (newer_ctime a) (older_mtime a) (older_ctime a) (exclusion_files a)
       (uids a) (gids a) (unames a) (gnames a).

Definition unmatched_inclusions_next (a : mstate) : mstate * (Z * option (list N)) :=
  if unmatched_eof a then (set_iter a (unmatched_next a) false, (ARCHIVE_EOF_, None))
  else
    let start :=
      match unmatched_next a with
      | Some i => Some i
      | None => if (unmatched_count a =? 0)%Z then None else Some O   (* = list->first *)
      end in
    match start with
    | None => (a, (ARCHIVE_EOF_, None))
    | Some i =>
      match first_unmatched (skipn i (inclusions a)) i with
      | Some (j, pat) =>
        let nx := if (S j <? length (inclusions a))%nat then Some (S j) else None in
        (set_iter a nx (match nx with None => true | Some _ => false end), (ARCHIVE_OK_, Some pat))
      | None => (set_iter a None false, (ARCHIVE_EOF_, None))
      end
    end.

(* ---- time filters *)
Definition validate_time_flag (flag : N) : bool :=
  (N.land flag (N.land (N.lxor 65535 (N.lor AM_MTIME AM_CTIME)) 65280) =? 0) &&
  negb (N.land flag (N.lor AM_MTIME AM_CTIME) =? 0) &&
  (N.land flag (N.land (N.lxor 65535 (N.lor (N.lor AM_NEWER AM_OLDER) AM_EQUAL)) 255) =? 0) &&
  negb (N.land flag (N.lor (N.lor AM_NEWER AM_OLDER) AM_EQUAL) =? 0).

Definition just_equal (t : N) : bool :=
  N.land t (N.lor (N.lor AM_EQUAL AM_NEWER) AM_OLDER) =? AM_EQUAL.

Definition set_times (a : mstate) (sf : N) (nm nc om oc : tfilter) (files : list match_file) : mstate :=
  mkMs sf (recursive_include a) (inclusions a) (exclusions a) (unmatched_count a)
       (unmatched_next a) (unmatched_eof a) nm nc om oc files
       (uids a) (gids a) (unames a) (gnames a).

(* archive_match_include_time = validate_time_flag + set_timefilter(flag, sec, nsec, sec, nsec) *)
Definition include_time (a : mstate) (flag : N) (sec nsec : Z) : mstate * Z :=
  if negb (validate_time_flag flag) then (a, ARCHIVE_FAILED_)
  else
    let f := mkTf flag sec nsec in
    let nw := has flag AM_NEWER || just_equal flag in
    let ol := has flag AM_OLDER || just_equal flag in
    let m := has flag AM_MTIME in
    let c := has flag AM_CTIME in
    let sf := if (m || c) && (nw || ol) then N.lor (setflag a) TIME_IS_SET else setflag a in
    (set_times a sf
       (if m && nw then f else newer_mtime a) (if c && nw then f else newer_ctime a)
       (if m && ol then f else older_mtime a) (if c && ol then f else older_ctime a)
       (exclusion_files a), ARCHIVE_OK_).

Fixpoint bytes_eqb (x y : list N) : bool :=
  match x, y with
  | [], [] => true
  | a :: x', b :: y' => (a =? b) && bytes_eqb x' y'
  | _, _ => false
  end.

Fixpoint find_file (l : list match_file) (path : list N) : option match_file :=
  match l with
  | [] => None
  | f :: t => if bytes_eqb (mf_path f) path then Some f else find_file t path
  end.

Fixpoint replace_file (l : list match_file) (f : match_file) : list match_file :=
  match l with
  | [] => []
  | g :: t => if bytes_eqb (mf_path g) (mf_path f) then f :: t else g :: replace_file t f
  end.

(* archive_match_exclude_entry = validate_time_flag + add_entry *)
Definition exclude_entry (a : mstate) (f : match_file) : mstate * Z :=
  if negb (validate_time_flag (mf_flag f)) then (a, ARCHIVE_FAILED_)
  else
    match find_file (exclusion_files a) (mf_path f) with
    | Some _ =>   (* duplicate: conditions overwritten, TIME_IS_SET untouched *)
      (set_times a (setflag a) (newer_mtime a) (newer_ctime a) (older_mtime a) (older_ctime a)
                 (replace_file (exclusion_files a) f), ARCHIVE_OK_)
    | None =>
      (set_times a (N.lor (setflag a) TIME_IS_SET) (newer_mtime a) (newer_ctime a) (older_mtime a)
                 (older_ctime a) (exclusion_files a ++ [f]), ARCHIVE_OK_)
    end.

(* entry times: ctime unset reads as mtime in the filter blocks and as 0 in the per-file block *)
Definition time_excluded (a : mstate) (path : list N) (msec mnsec : Z) (cset : bool) (csec cnsec : Z)
  : bool :=
  let xs := if cset then csec else msec in
  let xn := if cset then cnsec else mnsec in
  let rs := if cset then csec else 0%Z in
  let rn := if cset then cnsec else 0%Z in
  if newer_excludes (tf_flag (newer_ctime a)) (tf_sec (newer_ctime a)) (tf_nsec (newer_ctime a)) xs xn then true
  else if older_excludes (tf_flag (older_ctime a)) (tf_sec (older_ctime a)) (tf_nsec (older_ctime a)) xs xn then true
  else if newer_excludes (tf_flag (newer_mtime a)) (tf_sec (newer_mtime a)) (tf_nsec (newer_mtime a)) msec mnsec then true
  else if older_excludes (tf_flag (older_mtime a)) (tf_sec (older_mtime a)) (tf_nsec (older_mtime a)) msec mnsec then true
  else
    match exclusion_files a with
    | [] => false
    | _ =>
      match find_file (exclusion_files a) path with
      | None => false
      | Some f =>
        if has (mf_flag f) AM_CTIME && file_time_excludes (mf_flag f) (mf_csec f) (mf_cnsec f) rs rn then true
        else has (mf_flag f) AM_MTIME && file_time_excludes (mf_flag f) (mf_msec f) (mf_mnsec f) msec mnsec
      end
    end.

Definition api_time_excluded (a : mstate) (path : list N) (msec mnsec : Z) (cset : bool) (csec cnsec : Z) : Z :=
  if N.land (setflag a) TIME_IS_SET =? 0 then 0%Z
  else if time_excluded a path msec mnsec cset csec cnsec then 1%Z else 0%Z.

(* ---- owners *)
Definition set_owner (a : mstate) (u g : list Z) (un gn : list (list N)) : mstate :=
  mkMs (N.lor (setflag a) ID_IS_SET) (recursive_include a) (inclusions a) (exclusions a)
       (unmatched_count a) (unmatched_next a) (unmatched_eof a)
       (newer_mtime a) (newer_ctime a) (older_mtime a) (older_ctime a) (exclusion_files a) u g un gn.

Definition include_uid (a : mstate) (id : Z) : mstate :=
  set_owner a (add_owner_id (uids a) id) (gids a) (unames a) (gnames a).
Definition include_gid (a : mstate) (id : Z) : mstate :=
  set_owner a (uids a) (add_owner_id (gids a) id) (unames a) (gnames a).
Definition include_uname (a : mstate) (n : list N) : mstate :=
  set_owner a (uids a) (gids a) (unames a ++ [n]) (gnames a).
Definition include_gname (a : mstate) (n : list N) : mstate :=
  set_owner a (uids a) (gids a) (unames a) (gnames a ++ [n]).

(* match_owner_name_mbs; None = the entry has no such name *)
Definition match_owner_name (l : list (list N)) (name : option (list N)) : bool :=
  match name with
  | None => false
  | Some [] => false
  | Some n => existsb (fun p => bytes_eqb p n) l
  end.

Definition owner_excluded (a : mstate) (uid gid : Z) (uname gname : option (list N)) : res bool :=
  do ru <- (match uids a with [] => Ok true | _ => match_owner_id (uids a) uid end) ;;
  if negb ru then Ok true
  else
    do rg <- (match gids a with [] => Ok true | _ => match_owner_id (gids a) gid end) ;;
    if negb rg then Ok true
    else if (match unames a with [] => false | _ => negb (match_owner_name (unames a) uname) end) then Ok true
    else if (match gnames a with [] => false | _ => negb (match_owner_name (gnames a) gname) end) then Ok true
    else Ok false.

Definition api_owner_excluded (a : mstate) (uid gid : Z) (uname gname : option (list N)) : res Z :=
  if N.land (setflag a) ID_IS_SET =? 0 then Ok 0%Z
  else do r <- owner_excluded a uid gid uname gname ;; Ok (if r then 1%Z else 0%Z).
