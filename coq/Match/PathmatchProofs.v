(* Lemmas about the matcher model of PathmatchDefs.v.
   Part 1: every read of the guarded matcher is in bounds and the fuel passed is sufficient
           (the result of archive_pathmatch_gen true is always [Ok _]).
   Part 2: semantic lemmas (literal patterns, "*", character classes).
   Part 3: owner ids (sorted insert, binary search), time comparisons, path_excluded. *)
From Coq Require Import List ZArith NArith Bool Lia Sorted PeanoNat.
From LA Require Import Match.PathmatchDefs.
Import ListNotations.
Local Open Scope N_scope.

(* ------------------------------------------------------------------ reads *)
Lemma rd_ok : forall l i, (i <= length l)%nat -> exists c, rd l i = Ok c.
Proof.
  intros l i H. unfold rd. destruct (Nat.compare_spec i (length l)); eauto. lia.
Qed.

Lemma rd_le : forall l i c, rd l i = Ok c -> (i <= length l)%nat.
Proof.
  intros l i c. unfold rd. destruct (Nat.compare_spec i (length l)); intros; try discriminate; lia.
Qed.

Lemma rd_nz_lt : forall l i c, rd l i = Ok c -> c <> 0 -> (i < length l)%nat.
Proof.
  intros l i c. unfold rd. destruct (Nat.compare_spec i (length l)); intros E Hc; try discriminate.
  - inversion E. congruence.
  - lia.
Qed.

Lemma rd_lt : forall l i, (i < length l)%nat -> rd l i = Ok (nth i l 0).
Proof.
  intros l i H. unfold rd. destruct (Nat.compare_spec i (length l)); try lia. reflexivity.
Qed.

Lemma rd_end : forall l, rd l (length l) = Ok 0.
Proof. intros. unfold rd. rewrite Nat.compare_refl. reflexivity. Qed.

Lemma eqb_nz : forall c d : N, (c =? d) = true -> d <> 0 -> c <> 0.
Proof. intros c d E H. apply N.eqb_eq in E. congruence. Qed.

Definition safe {A} (r : res A) : Prop := exists a, r = Ok a.

(* ------------------------------------------------------------------ small loops *)
Lemma skip_char_safe : forall ch l, ch <> 0 -> forall k i,
  (i <= length l)%nat -> (length l - i + 1 <= k)%nat ->
  exists j, skip_char k ch l i = Ok j /\ (i <= j <= length l)%nat /\
            (rd l i = Ok ch -> (i < j)%nat).
Proof.
  intros ch l Hch. induction k as [|k IH]; intros i Hi Hk; [lia|].
  cbn [skip_char]. destruct (rd_ok l i Hi) as [c Hc]. rewrite Hc. cbn [bind].
  destruct (c =? ch) eqn:E.
  - assert (i < length l)%nat by (eapply rd_nz_lt; eauto using eqb_nz).
    destruct (IH (i + 1)%nat) as [j [Hj [Hb _]]]; try lia. exists j. split; [exact Hj|]. split; lia.
  - exists i. split; [reflexivity|]. split; [lia|]. intros Hx. inversion Hx. subst c.
    rewrite N.eqb_refl in E. discriminate.
Qed.

Lemma slashskip_safe : forall l k i,
  (i <= length l)%nat -> (length l - i + 1 <= k)%nat ->
  exists j, slashskip k l i = Ok j /\ (i <= j <= length l)%nat /\
            (rd l i = Ok c_slash -> (i < j)%nat).
Proof.
  intros l. induction k as [|k IH]; intros i Hi Hk; [lia|].
  cbn [slashskip]. destruct (rd_ok l i Hi) as [c Hc]. rewrite Hc. cbn [bind].
  destruct (c =? c_slash) eqn:E.
  - assert (i < length l)%nat by (eapply rd_nz_lt; eauto; eapply eqb_nz; eauto; discriminate).
    destruct (IH (i + 1)%nat) as [j [Hj [Hb _]]]; try lia. exists j. split; [exact Hj|]. split; lia.
  - assert (Hno : @Ok N c = Ok c_slash -> False).
    { intros Hx. inversion Hx. subst c. discriminate. }
    destruct (c =? c_dot) eqn:E2.
    + assert (i < length l)%nat by (eapply rd_nz_lt; eauto; eapply eqb_nz; eauto; discriminate).
      destruct (rd_ok l (i + 1)%nat) as [c1 Hc1]; [lia|]. rewrite Hc1. cbn [bind].
      destruct ((c1 =? c_slash) || (c1 =? 0)).
      * destruct (IH (i + 1)%nat) as [j [Hj [Hb _]]]; try lia. exists j. split; [exact Hj|]. split; [lia|tauto].
      * exists i. split; [reflexivity|]. split; [lia|tauto].
    + exists i. split; [reflexivity|]. split; [lia|tauto].
Qed.

Lemma class_end_safe : forall l k i,
  (i <= length l)%nat -> (length l - i + 1 <= k)%nat ->
  exists j, class_end k l i = Ok j /\ (i <= j <= length l)%nat.
Proof.
  intros l. induction k as [|k IH]; intros i Hi Hk; [lia|].
  cbn [class_end]. destruct (rd_ok l i Hi) as [c Hc]. rewrite Hc. cbn [bind].
  destruct ((c =? 0) || (c =? c_rbrack)) eqn:E.
  - exists i. split; [reflexivity|lia].
  - apply orb_false_iff in E. destruct E as [E0 _]. apply N.eqb_neq in E0.
    assert (i < length l)%nat by (eapply rd_nz_lt; eauto).
    destruct (c =? c_bslash).
    + destruct (rd_ok l (i + 1)%nat) as [c1 Hc1]; [lia|]. rewrite Hc1. cbn [bind].
      destruct (c1 =? 0) eqn:E1; cbn [negb].
      * destruct (IH (i + 1)%nat) as [j [Hj Hb]]; try lia. exists j. split; [exact Hj|lia].
      * apply N.eqb_neq in E1. assert (i + 1 < length l)%nat by (eapply rd_nz_lt; eauto).
        destruct (IH (i + 2)%nat) as [j [Hj Hb]]; try lia. exists j. split; [exact Hj|lia].
    + destruct (IH (i + 1)%nat) as [j [Hj Hb]]; try lia. exists j. split; [exact Hj|lia].
Qed.

Lemma strchr_slash_safe : forall l k i,
  (i <= length l)%nat -> (length l - i + 1 <= k)%nat ->
  exists o, strchr_slash k l i = Ok o /\
            match o with Some j => (i <= j < length l)%nat /\ rd l j = Ok c_slash | None => True end.
Proof.
  intros l. induction k as [|k IH]; intros i Hi Hk; [lia|].
  cbn [strchr_slash]. destruct (rd_ok l i Hi) as [c Hc]. rewrite Hc. cbn [bind].
  destruct (c =? c_slash) eqn:E.
  - assert (i < length l)%nat by (eapply rd_nz_lt; eauto; eapply eqb_nz; eauto; discriminate).
    apply N.eqb_eq in E. subst c. exists (Some i). split; [reflexivity|]. split; [lia|exact Hc].
  - destruct (c =? 0) eqn:E0.
    + exists None. split; [reflexivity|exact I].
    + apply N.eqb_neq in E0. assert (i < length l)%nat by (eapply rd_nz_lt; eauto).
      destruct (IH (i + 1)%nat) as [o [Ho Hb]]; try lia. exists o. split; [exact Ho|].
      destruct o as [j|]; [|exact I]. destruct Hb as [Hb1 Hb2]. split; [lia|exact Hb2].
Qed.

(* ------------------------------------------------------------------ pm_list *)
Lemma pm_list_loop_safe : forall p e c mt nm, (e <= length p)%nat -> forall k pi rs,
  (e - pi + 1 <= k)%nat -> safe (pm_list_loop k p pi e rs c mt nm).
Proof.
  intros p e c mt nm He. induction k as [|k IH]; intros pi rs Hk; [lia|].
  cbn [pm_list_loop]. destruct (pi <? e)%nat eqn:Hlt; [|eexists; reflexivity].
  apply Nat.ltb_lt in Hlt.
  destruct (rd_ok p pi) as [ch Hch]; [lia|]. rewrite Hch. cbn [bind].
  destruct (ch =? c_dash).
  - destruct ((rs =? 0) || (pi =? e - 1)%nat) eqn:Ed.
    + destruct (ch =? c); [eexists; reflexivity|]. apply IH. lia.
    + apply orb_false_iff in Ed. destruct Ed as [_ Ed]. apply Nat.eqb_neq in Ed.
      destruct (rd_ok p (pi + 1)%nat) as [re Hre]; [lia|]. rewrite Hre. cbn [bind].
      destruct (re =? c_bslash).
      * destruct (rd_ok p (pi + 2)%nat) as [re2 Hre2]; [lia|]. rewrite Hre2. cbn [bind].
        destruct ((sc rs <=? sc c)%Z && (sc c <=? sc re2)%Z); [eexists; reflexivity|]. apply IH. lia.
      * destruct ((sc rs <=? sc c)%Z && (sc c <=? sc re)%Z); [eexists; reflexivity|]. apply IH. lia.
  - destruct (ch =? c_bslash).
    + destruct (rd_ok p (pi + 1)%nat) as [ch2 Hch2]; [lia|]. rewrite Hch2. cbn [bind].
      destruct (ch2 =? c); [eexists; reflexivity|]. apply IH. lia.
    + destruct (ch =? c); [eexists; reflexivity|]. apply IH. lia.
Qed.

Lemma pm_list_safe : forall p start e c,
  (start <= e)%nat -> (e <= length p)%nat -> safe (pm_list p start e c).
Proof.
  intros p start e c H1 H2. unfold pm_list.
  destruct (rd_ok p start) as [c0 Hc0]; [lia|]. rewrite Hc0. cbn [bind].
  destruct (((c0 =? c_bang) || (c0 =? c_caret)) && (start <? e)%nat);
    apply pm_list_loop_safe; try assumption; lia.
Qed.

(* ------------------------------------------------------------------ loops over the subject *)
Lemma star_loop_safe : forall (f : nat -> res bool) s,
  (forall si, (si <= length s)%nat -> safe (f si)) ->
  forall k si, (si <= length s)%nat -> (length s - si + 1 <= k)%nat -> safe (star_loop k f s si).
Proof.
  intros f s Hf. induction k as [|k IH]; intros si Hsi Hk; [lia|].
  cbn [star_loop]. destruct (rd_ok s si Hsi) as [c Hc]. rewrite Hc. cbn [bind].
  destruct (c =? 0) eqn:E; [eexists; reflexivity|].
  apply N.eqb_neq in E. assert (si < length s)%nat by (eapply rd_nz_lt; eauto).
  destruct (Hf si Hsi) as [r Hr]. rewrite Hr. cbn [bind].
  destruct r; [eexists; reflexivity|]. apply IH; lia.
Qed.

Lemma anchor_loop_safe : forall (f : nat -> res bool) s,
  (forall si, (si <= length s)%nat -> safe (f si)) ->
  forall k si, (si <= length s)%nat -> (length s - si + 1 <= k)%nat -> safe (anchor_loop k f s si).
Proof.
  intros f s Hf. induction k as [|k IH]; intros si Hsi Hk; [lia|].
  cbn [anchor_loop]. destruct (rd_ok s si Hsi) as [c Hc]. rewrite Hc. cbn [bind].
  set (si1 := if c =? c_slash then (si + 1)%nat else si).
  assert (Hsi1 : (si <= si1 <= length s)%nat /\ ((c =? c_slash) = true -> si1 = (si + 1)%nat)).
  { unfold si1. destruct (c =? c_slash) eqn:E.
    - assert (si < length s)%nat by (eapply rd_nz_lt; eauto; eapply eqb_nz; eauto; discriminate). lia.
    - split; [lia|discriminate]. }
  destruct Hsi1 as [Hsi1 Hsl].
  destruct (Hf si1) as [r Hr]; [lia|]. rewrite Hr. cbn [bind].
  destruct r; [eexists; reflexivity|].
  destruct (strchr_slash_safe s (sfuel s) si1) as [o [Ho Hb]]; [lia|unfold sfuel; lia|].
  rewrite Ho. cbn [bind]. destruct o as [j|]; [|eexists; reflexivity].
  destruct Hb as [Hb1 Hb2]. apply IH; [lia|].
  (* j > si : either s[si] = '/' and si1 = si+1 <= j, or s[si] <> '/' = s[j] *)
  destruct (c =? c_slash) eqn:E.
  - specialize (Hsl eq_refl). lia.
  - assert (j <> si). { intro; subst j. rewrite Hc in Hb2. inversion Hb2. subst c. discriminate. }
    lia.
Qed.

(* ------------------------------------------------------------------ entry, prologue, main loop *)
Lemma apm_with_safe : forall pmf p s pi0,
  (forall pi si fl, (pi0 <= pi <= length p)%nat -> (si <= length s)%nat -> safe (pmf pi si fl)) ->
  forall pi si fl, (pi0 <= pi <= length p)%nat -> (si <= length s)%nat -> safe (apm_with pmf p s pi si fl).
Proof.
  intros pmf p s pi0 Hpm pi si fl Hpi Hsi. unfold apm_with.
  destruct (rd_ok p pi) as [p0 Hp0]; [lia|]. rewrite Hp0. cbn [bind].
  destruct (rd_ok s si Hsi) as [s0 Hs0].
  destruct (p0 =? 0) eqn:E0.
  { rewrite Hs0. cbn [bind]. eexists; reflexivity. }
  apply N.eqb_neq in E0. assert (pi < length p)%nat by (eapply rd_nz_lt; eauto).
  set (pi1 := if p0 =? c_caret then (pi + 1)%nat else pi).
  set (fl1 := if p0 =? c_caret then N.clearbit fl 0 else fl).
  assert (Hpi1 : (pi <= pi1 <= length p)%nat) by (unfold pi1; destruct (p0 =? c_caret); lia).
  destruct (rd_ok p pi1) as [p1 Hp1]; [lia|]. rewrite Hp1. cbn [bind].
  assert (Hrej : exists b, (if p1 =? c_slash then (do s0 <- rd s si ;; Ok (negb (s0 =? c_slash))) else Ok false) = Ok b).
  { destruct (p1 =? c_slash); [rewrite Hs0; cbn [bind]|]; eexists; reflexivity. }
  destruct Hrej as [rej Hrej]. rewrite Hrej. cbn [bind].
  destruct rej; [eexists; reflexivity|].
  destruct ((p1 =? c_star) || (p1 =? c_slash)).
  - destruct (skip_char_safe c_slash p) with (k := pfuel p) (i := pi1) as [pi2 [H2 [Hb2 _]]];
      [discriminate|lia|unfold pfuel; lia|].
    destruct (skip_char_safe c_slash s) with (k := sfuel s) (i := si) as [si2 [H3 [Hb3 _]]];
      [discriminate|lia|unfold sfuel; lia|].
    rewrite H2, H3. cbn [bind]. apply Hpm; lia.
  - destruct (no_anchor_start fl1).
    + apply anchor_loop_safe; [|lia|unfold sfuel; lia]. intros. apply Hpm; lia.
    + apply Hpm; lia.
Qed.

Lemma pm_prologue_safe : forall loopf p s pi0,
  (forall pi si, (pi0 <= pi <= length p)%nat -> (si <= length s)%nat -> safe (loopf pi si)) ->
  forall pi si, (pi0 <= pi <= length p)%nat -> (si <= length s)%nat -> safe (pm_prologue loopf p s pi si).
Proof.
  intros loopf p s pi0 Hl pi si Hpi Hsi. unfold pm_prologue.
  destruct (rd_ok s si Hsi) as [s0 Hs0]. rewrite Hs0. cbn [bind].
  assert (H1 : exists si1, (if s0 =? c_dot
      then (do s1 <- rd s (si + 1) ;; if s1 =? c_slash then slashskip (sfuel s) s (si + 1) else Ok si)
      else Ok si) = Ok si1 /\ (si <= si1 <= length s)%nat).
  { destruct (s0 =? c_dot) eqn:E; [|exists si; split; [reflexivity|lia]].
    assert (si < length s)%nat by (eapply rd_nz_lt; eauto; eapply eqb_nz; eauto; discriminate).
    destruct (rd_ok s (si + 1)%nat) as [s1 Hs1]; [lia|]. rewrite Hs1. cbn [bind].
    destruct (s1 =? c_slash); [|exists si; split; [reflexivity|lia]].
    destruct (slashskip_safe s (sfuel s) (si + 1)%nat) as [j [Hj [Hb _]]]; [lia|unfold sfuel; lia|].
    exists j. split; [exact Hj|lia]. }
  destruct H1 as [si1 [H1 Hb1]]. rewrite H1. cbn [bind].
  destruct (rd_ok p pi) as [p0 Hp0]; [lia|]. rewrite Hp0. cbn [bind].
  assert (H2 : exists pi1, (if p0 =? c_dot
      then (do p1 <- rd p (pi + 1) ;; if p1 =? c_slash then slashskip (pfuel p) p (pi + 1) else Ok pi)
      else Ok pi) = Ok pi1 /\ (pi <= pi1 <= length p)%nat).
  { destruct (p0 =? c_dot) eqn:E; [|exists pi; split; [reflexivity|lia]].
    assert (pi < length p)%nat by (eapply rd_nz_lt; eauto; eapply eqb_nz; eauto; discriminate).
    destruct (rd_ok p (pi + 1)%nat) as [p1 Hp1]; [lia|]. rewrite Hp1. cbn [bind].
    destruct (p1 =? c_slash); [|exists pi; split; [reflexivity|lia]].
    destruct (slashskip_safe p (pfuel p) (pi + 1)%nat) as [j [Hj [Hb _]]]; [lia|unfold pfuel; lia|].
    exists j. split; [exact Hj|lia]. }
  destruct H2 as [pi1 [H2 Hb2]]. rewrite H2. cbn [bind].
  apply Hl; lia.
Qed.

(* The guarded matcher: from any in-range position, with fuel >= remaining pattern length + 1,
   the main loop finishes with a verdict: no read beyond the NUL, no fuel exhaustion. *)
Lemma pm_loop_safe : forall p s n fl pi si,
  (pi <= length p)%nat -> (si <= length s)%nat -> (length p - pi + 1 <= n)%nat ->
  safe (pm_loop true n p s fl pi si).
Proof.
  intros p s. induction n as [|n IH]; intros fl pi si Hpi Hsi Hn; [lia|].
  cbn [pm_loop].
  destruct (rd_ok p pi Hpi) as [pc Hpc]. rewrite Hpc. cbn [bind].
  destruct (rd_ok s si Hsi) as [s0 Hs0].
  (* end of pattern *)
  destruct (pc =? 0) eqn:E0.
  { rewrite Hs0. cbn [bind]. destruct (s0 =? c_slash); [|eexists; reflexivity].
    destruct (no_anchor_end fl); [eexists; reflexivity|].
    destruct (slashskip_safe s (sfuel s) si) as [j [Hj [Hb _]]]; [lia|unfold sfuel; lia|].
    rewrite Hj. cbn [bind]. destruct (rd_ok s j) as [s1 Hs1]; [lia|]. rewrite Hs1. cbn [bind].
    eexists; reflexivity. }
  apply N.eqb_neq in E0. assert (Hlt : (pi < length p)%nat) by (eapply rd_nz_lt; eauto).
  (* continuing is safe from any later pattern position *)
  assert (Hcont : forall fl' pi' si', (pi < pi' <= length p)%nat -> (si' <= length s)%nat ->
                                      safe (pm_loop true n p s fl' pi' si')).
  { intros. apply IH; lia. }
  assert (Hs0nz : forall d, (s0 =? d) = true -> d <> 0 -> (si < length s)%nat).
  { intros d Ed Hd. eapply rd_nz_lt; eauto using eqb_nz. }
  destruct (pc =? c_qmark).
  { rewrite Hs0. cbn [bind]. destruct (s0 =? 0) eqn:Es; [eexists; reflexivity|].
    apply N.eqb_neq in Es. assert (si < length s)%nat by (eapply rd_nz_lt; eauto).
    apply Hcont; lia. }
  destruct (pc =? c_star) eqn:Estar.
  { destruct (skip_char_safe c_star p) with (k := pfuel p) (i := pi) as [pi1 [H1 [Hb1 Hp1']]];
      [discriminate|lia|unfold pfuel; lia|].
    rewrite H1. cbn [bind].
    (* at least the star at pi was skipped *)
    assert (pi < pi1)%nat.
    { apply Hp1'. apply N.eqb_eq in Estar. subst pc. exact Hpc. }
    destruct (rd_ok p pi1) as [p1 Hp1]; [lia|]. rewrite Hp1. cbn [bind].
    destruct (p1 =? 0); [eexists; reflexivity|].
    apply star_loop_safe; [|lia|unfold sfuel; lia].
    intros si' Hsi'. apply apm_with_safe with (pi0 := pi1); [|lia|lia].
    intros pi2 si2 fl2 Hpi2 Hsi2. apply pm_prologue_safe with (pi0 := pi2); [|lia|lia].
    intros. apply Hcont; lia. }
  destruct (pc =? c_lbrack).
  { destruct (class_end_safe p (pfuel p) (pi + 1)%nat) as [e [He Hbe]]; [lia|unfold pfuel; lia|].
    rewrite He. cbn [bind].
    destruct (rd_ok p e) as [ec Hec]; [lia|]. rewrite Hec. cbn [bind].
    destruct (ec =? c_rbrack) eqn:Eec.
    - assert (e < length p)%nat by (eapply rd_nz_lt; eauto; eapply eqb_nz; eauto; discriminate).
      rewrite Hs0. cbn [bind]. cbn [andb].
      destruct (s0 =? 0) eqn:Es; [eexists; reflexivity|].
      apply N.eqb_neq in Es. assert (si < length s)%nat by (eapply rd_nz_lt; eauto).
      destruct (pm_list_safe p (pi + 1)%nat e s0) as [m Hm]; [lia|lia|]. rewrite Hm. cbn [bind].
      destruct m; [|eexists; reflexivity]. apply Hcont; lia.
    - rewrite Hs0. cbn [bind]. destruct (pc =? s0) eqn:Eq; cbn [negb]; [|eexists; reflexivity].
      apply N.eqb_eq in Eq. subst s0. assert (si < length s)%nat by (eapply rd_nz_lt; eauto).
      apply Hcont; lia. }
  destruct (pc =? c_bslash).
  { destruct (rd_ok p (pi + 1)%nat) as [p1 Hp1]; [lia|]. rewrite Hp1. cbn [bind].
    destruct (p1 =? 0) eqn:E1.
    - rewrite Hs0. cbn [bind]. destruct (s0 =? c_bslash) eqn:Eq; cbn [negb]; [|eexists; reflexivity].
      assert (si < length s)%nat by (eapply Hs0nz; eauto; discriminate). apply Hcont; lia.
    - apply N.eqb_neq in E1. assert (pi + 1 < length p)%nat by (eapply rd_nz_lt; eauto).
      rewrite Hs0. cbn [bind]. destruct (p1 =? s0) eqn:Eq; cbn [negb]; [|eexists; reflexivity].
      apply N.eqb_eq in Eq. subst s0. assert (si < length s)%nat by (eapply rd_nz_lt; eauto).
      apply Hcont; lia. }
  destruct (pc =? c_slash) eqn:Esl.
  { rewrite Hs0. cbn [bind].
    destruct (negb (s0 =? c_slash) && negb (s0 =? 0)); [eexists; reflexivity|].
    destruct (slashskip_safe p (pfuel p) pi) as [pi1 [H1 [Hb1 Hp1']]]; [lia|unfold pfuel; lia|].
    destruct (slashskip_safe s (sfuel s) si) as [si1 [H2 [Hb2 _]]]; [lia|unfold sfuel; lia|].
    rewrite H1, H2. cbn [bind].
    assert (pi < pi1)%nat.
    { apply Hp1'. apply N.eqb_eq in Esl. subst pc. exact Hpc. }
    destruct (rd_ok p pi1) as [p1 Hp1]; [lia|]. rewrite Hp1. cbn [bind].
    destruct ((p1 =? 0) && no_anchor_end fl); [eexists; reflexivity|].
    apply Hcont; lia. }
  (* '$' and ordinary characters *)
  assert (Hsp : exists b, (if pc =? c_dollar
                  then (do p1 <- rd p (pi + 1) ;; Ok ((p1 =? 0) && no_anchor_end fl))
                  else Ok false) = Ok b).
  { destruct (pc =? c_dollar); [|eexists; reflexivity].
    destruct (rd_ok p (pi + 1)%nat) as [p1 Hp1]; [lia|]. rewrite Hp1. cbn [bind]. eexists; reflexivity. }
  destruct Hsp as [sp Hsp]. rewrite Hsp. cbn [bind].
  destruct sp.
  - destruct (slashskip_safe s (sfuel s) si) as [j [Hj [Hb _]]]; [lia|unfold sfuel; lia|].
    rewrite Hj. cbn [bind]. destruct (rd_ok s j) as [s1 Hs1]; [lia|]. rewrite Hs1. cbn [bind].
    eexists; reflexivity.
  - rewrite Hs0. cbn [bind]. destruct (pc =? s0) eqn:Eq; cbn [negb]; [|eexists; reflexivity].
    apply N.eqb_eq in Eq. subst s0. assert (si < length s)%nat by (eapply rd_nz_lt; eauto).
    apply Hcont; lia.
Qed.

Lemma pm_gen_safe : forall p s pi si fl,
  (pi <= length p)%nat -> (si <= length s)%nat -> safe (pm_gen true p s pi si fl).
Proof.
  intros. unfold pm_gen. apply pm_prologue_safe with (pi0 := pi); [|lia|lia].
  intros. apply pm_loop_safe; [lia|lia|unfold pm_fuel; lia].
Qed.

Theorem archive_pathmatch_safe : forall p s fl, safe (archive_pathmatch_gen true p s fl).
Proof.
  intros. unfold archive_pathmatch_gen. apply apm_with_safe with (pi0 := O); [|lia|lia].
  intros. apply pm_gen_safe; lia.
Qed.

Theorem pm_in_bounds : forall p s fl, archive_pathmatch_gen true p s fl <> OobRead.
Proof. intros p s fl. destruct (archive_pathmatch_safe p s fl) as [b H]. rewrite H. discriminate. Qed.

Theorem pm_fuel_sufficient : forall p s fl, archive_pathmatch_gen true p s fl <> OutOfFuel.
Proof. intros p s fl. destruct (archive_pathmatch_safe p s fl) as [b H]. rewrite H. discriminate. Qed.

(* ================================================================== Part 2: semantics *)
Lemma rd_app : forall pre l i, (i < length l)%nat -> rd (pre ++ l) (length pre + i) = Ok (nth i l 0).
Proof.
  intros pre l i H. rewrite rd_lt by (rewrite app_length; lia).
  rewrite app_nth2 by lia. f_equal. f_equal. lia.
Qed.

Lemma rd_app0 : forall pre c l, rd (pre ++ c :: l) (length pre) = Ok c.
Proof.
  intros. replace (length pre) with (length pre + 0)%nat at 1 by lia.
  rewrite rd_app; [reflexivity|cbn; lia].
Qed.

Lemma skipn_nth_cons : forall (l : list N) i, (i < length l)%nat -> skipn i l = nth i l 0 :: skipn (S i) l.
Proof.
  induction l as [|x l IH]; intros i H; [cbn in H; lia|].
  destruct i; [reflexivity|]. cbn [skipn nth]. apply IH. cbn in H. lia.
Qed.

Lemma rd_forallb : forall f l i c, forallb f l = true -> rd l i = Ok c -> c = 0 \/ f c = true.
Proof.
  intros f l i c Hf H. unfold rd in H. destruct (Nat.compare_spec i (length l)); try discriminate.
  - inversion H. auto.
  - inversion H. right. rewrite forallb_forall in Hf. apply Hf. apply nth_In. assumption.
Qed.

(* characters that stand for themselves anywhere in a pattern *)
Definition plainc (c : N) : bool :=
  negb (c =? 0) && negb (c =? c_qmark) && negb (c =? c_star) && negb (c =? c_lbrack) &&
  negb (c =? c_bslash) && negb (c =? c_slash) && negb (c =? c_dollar).
(* bytes of a subject without directory separators *)
Definition pathc (c : N) : bool := negb (c =? 0) && negb (c =? c_slash).

Lemma plainc_inv : forall c, plainc c = true ->
  (c =? 0) = false /\ (c =? c_qmark) = false /\ (c =? c_star) = false /\ (c =? c_lbrack) = false /\
  (c =? c_bslash) = false /\ (c =? c_slash) = false /\ (c =? c_dollar) = false.
Proof.
  intros c H. unfold plainc in H. repeat (apply andb_prop in H; destruct H as [H ?]).
  repeat match goal with X : negb _ = true |- _ => apply negb_true_iff in X end. tauto.
Qed.

Lemma pathc_inv : forall c, pathc c = true -> (c =? 0) = false /\ (c =? c_slash) = false.
Proof.
  intros c H. unfold pathc in H. apply andb_prop in H. destruct H as [H1 H2].
  apply negb_true_iff in H1, H2. tauto.
Qed.

Lemma rd_path_noslash : forall s i c, forallb pathc s = true -> rd s i = Ok c -> (c =? c_slash) = false.
Proof.
  intros s i c Hs H. destruct (rd_forallb _ _ _ _ Hs H) as [->|Hc]; [reflexivity|].
  apply pathc_inv in Hc. tauto.
Qed.

Lemma pm_loop_literal : forall g p s fl, forallb plainc p = true -> forallb pathc s = true ->
  forall n pi si, (pi <= length p)%nat -> (si <= length s)%nat -> (length p - pi + 1 <= n)%nat ->
  pm_loop g n p s fl pi si = Ok (bytes_eqb (skipn pi p) (skipn si s)).
Proof.
  intros g p s fl Hp Hs. induction n as [|n IH]; intros pi si Hpi Hsi Hn; [lia|].
  cbn [pm_loop].
  assert (Hsub : forall c, (si < length s)%nat -> c = nth si s 0 -> (c =? 0) = false /\ (c =? c_slash) = false).
  { intros c Hlt ->. apply pathc_inv. rewrite forallb_forall in Hs. apply Hs. apply nth_In. assumption. }
  destruct (Nat.eq_dec pi (length p)) as [->|Hne].
  - rewrite rd_end. cbn [bind]. rewrite N.eqb_refl. rewrite skipn_all.
    destruct (Nat.eq_dec si (length s)) as [->|Hns].
    + rewrite rd_end. cbn [bind]. rewrite skipn_all. reflexivity.
    + rewrite rd_lt by lia. cbn [bind]. rewrite skipn_nth_cons by lia.
      destruct (Hsub (nth si s 0)) as [E0 Es]; [lia|reflexivity|]. rewrite Es, E0. reflexivity.
  - assert (Hlt : (pi < length p)%nat) by lia.
    rewrite rd_lt by lia. cbn [bind]. rewrite (skipn_nth_cons p pi) by lia.
    set (pc := nth pi p 0).
    assert (Hpc : plainc pc = true).
    { rewrite forallb_forall in Hp. apply Hp. apply nth_In. assumption. }
    destruct (plainc_inv pc Hpc) as [E0 [E1 [E2 [E3 [E4 [E5 E6]]]]]].
    rewrite E0, E1, E2, E3, E4, E5, E6. cbn [bind].
    destruct (Nat.eq_dec si (length s)) as [->|Hns].
    + rewrite rd_end. cbn [bind]. rewrite skipn_all. rewrite E0. reflexivity.
    + rewrite rd_lt by lia. cbn [bind]. rewrite (skipn_nth_cons s si) by lia.
      cbn [bytes_eqb]. destruct (pc =? nth si s 0); cbn [negb andb]; [|reflexivity].
      rewrite IH by lia. rewrite !Nat.add_1_r. reflexivity.
Qed.

Lemma strchr_noslash : forall s, forallb pathc s = true -> forall k i,
  (i <= length s)%nat -> (length s - i + 1 <= k)%nat -> strchr_slash k s i = Ok None.
Proof.
  intros s Hs. induction k as [|k IH]; intros i Hi Hk; [lia|].
  cbn [strchr_slash]. destruct (rd_ok s i Hi) as [c Hc]. rewrite Hc. cbn [bind].
  rewrite (rd_path_noslash s i c Hs Hc).
  destruct (c =? 0) eqn:E0; [reflexivity|].
  apply N.eqb_neq in E0. assert (i < length s)%nat by (eapply rd_nz_lt; eauto).
  apply IH; lia.
Qed.

Lemma pm_prologue_literal : forall loopf p s, forallb plainc p = true -> forallb pathc s = true ->
  pm_prologue loopf p s 0 0 = loopf O O.
Proof.
  intros loopf p s Hp Hs. unfold pm_prologue.
  destruct (rd_ok s O) as [s0 Hs0]; [lia|]. rewrite Hs0. cbn [bind].
  assert (H1 : (if s0 =? c_dot
      then (do s1 <- rd s (0 + 1) ;; if s1 =? c_slash then slashskip (sfuel s) s (0 + 1) else Ok O)
      else Ok O) = Ok O).
  { destruct (s0 =? c_dot) eqn:E; [|reflexivity].
    assert (0 < length s)%nat by (eapply rd_nz_lt; eauto; eapply eqb_nz; eauto; discriminate).
    destruct (rd_ok s (0 + 1)%nat) as [s1 Hs1]; [lia|]. rewrite Hs1. cbn [bind].
    rewrite (rd_path_noslash s _ s1 Hs Hs1). reflexivity. }
  rewrite H1. cbn [bind].
  destruct (rd_ok p O) as [p0 Hp0]; [lia|]. rewrite Hp0. cbn [bind].
  assert (H2 : (if p0 =? c_dot
      then (do p1 <- rd p (0 + 1) ;; if p1 =? c_slash then slashskip (pfuel p) p (0 + 1) else Ok O)
      else Ok O) = Ok O).
  { destruct (p0 =? c_dot) eqn:E; [|reflexivity].
    assert (0 < length p)%nat by (eapply rd_nz_lt; eauto; eapply eqb_nz; eauto; discriminate).
    destruct (rd_ok p (0 + 1)%nat) as [p1 Hp1]; [lia|]. rewrite Hp1. cbn [bind].
    destruct (rd_forallb _ _ _ _ Hp Hp1) as [->|Hc]; [reflexivity|].
    apply plainc_inv in Hc. destruct Hc as [_ [_ [_ [_ [_ [Hc _]]]]]]. rewrite Hc. reflexivity. }
  rewrite H2. cbn [bind]. reflexivity.
Qed.

(* A pattern without metacharacters (and not starting with '^') matches, under every flag
   combination, exactly the equal string - among subjects that contain no '/'.  (With '/' in the
   subject the documented extras apply: leading "./", "dir" == "dir/", path elements under
   NO_ANCHOR_START, what is below a directory under NO_ANCHOR_END.) *)
Theorem literal_pattern_exact : forall g p s fl,
  forallb plainc p = true -> hd 0 p <> c_caret -> forallb pathc s = true ->
  archive_pathmatch_gen g p s fl = Ok (bytes_eqb p s).
Proof.
  intros g p s fl Hp Hcar Hs. unfold archive_pathmatch_gen, apm_with.
  assert (Hpm : pm_gen g p s 0 0 fl = Ok (bytes_eqb p s)).
  { unfold pm_gen. rewrite pm_prologue_literal by assumption.
    rewrite pm_loop_literal; try assumption; try lia; [reflexivity|unfold pm_fuel; lia]. }
  destruct p as [|c p'].
  - cbn [rd length Nat.compare bind]. rewrite N.eqb_refl.
    destruct s as [|d s']; [reflexivity|].
    cbn [rd length Nat.compare nth bind bytes_eqb].
    cbn [forallb] in Hs. apply andb_prop in Hs. destruct Hs as [Hd _]. apply pathc_inv in Hd.
    destruct Hd as [-> _]. reflexivity.
  - assert (Hc0 : rd (c :: p') 0 = Ok c) by reflexivity. rewrite Hc0. cbn [bind].
    cbn [forallb] in Hp. apply andb_prop in Hp. destruct Hp as [Hc Hp'].
    destruct (plainc_inv c Hc) as [E0 [E1 [E2 [E3 [E4 [E5 E6]]]]]].
    cbn [hd] in Hcar. apply N.eqb_neq in Hcar.
    rewrite E0, Hcar, Hc0. cbn [bind]. rewrite E5, E2. cbn [bind orb].
    destruct (no_anchor_start fl); [|exact Hpm].
    unfold sfuel. rewrite Nat.add_comm. cbn [plus anchor_loop].
    destruct (rd_ok s O) as [s0 Hs0]; [lia|]. rewrite Hs0. cbn [bind].
    rewrite (rd_path_noslash s _ s0 Hs Hs0). rewrite Hpm. cbn [bind].
    destruct (bytes_eqb (c :: p') s); [reflexivity|].
    rewrite strchr_noslash; [reflexivity|assumption|lia|unfold sfuel; lia].
Qed.

(* "*" matches every subject, whatever the flags *)
Theorem star_matches_everything : forall g s fl, archive_pathmatch_gen g [c_star] s fl = Ok true.
Proof.
  intros g s fl. unfold archive_pathmatch_gen, apm_with.
  assert (R0 : rd [c_star] 0 = Ok c_star) by reflexivity.
  assert (R1 : rd [c_star] 1 = Ok 0) by reflexivity.
  rewrite R0. cbn [bind].
  change (c_star =? 0) with false. change (c_star =? c_caret) with false. cbv iota.
  rewrite R0. cbn [bind]. change (c_star =? c_slash) with false. cbv iota. cbn [bind].
  change (c_star =? c_star) with true. cbn [orb].
  change (skip_char (pfuel [c_star]) c_slash [c_star] 0) with (@Ok nat O). cbn [bind].
  destruct (skip_char_safe c_slash s) with (k := sfuel s) (i := O) as [si2 [H2 [Hb2 _]]];
    [discriminate|lia|unfold sfuel; lia|].
  rewrite H2. cbn [bind]. unfold pm_gen, pm_prologue.
  destruct (rd_ok s si2) as [s0 Hs0]; [lia|]. rewrite Hs0. cbn [bind].
  assert (H1 : exists si1, (if s0 =? c_dot
      then (do s1 <- rd s (si2 + 1) ;; if s1 =? c_slash then slashskip (sfuel s) s (si2 + 1) else Ok si2)
      else Ok si2) = Ok si1).
  { destruct (s0 =? c_dot) eqn:E; [|eexists; reflexivity].
    assert (si2 < length s)%nat by (eapply rd_nz_lt; eauto; eapply eqb_nz; eauto; discriminate).
    destruct (rd_ok s (si2 + 1)%nat) as [s1 Hs1]; [lia|]. rewrite Hs1. cbn [bind].
    destruct (s1 =? c_slash); [|eexists; reflexivity].
    destruct (slashskip_safe s (sfuel s) (si2 + 1)%nat) as [j [Hj _]]; [lia|unfold sfuel; lia|].
    exists j. exact Hj. }
  destruct H1 as [si1 H1]. rewrite H1. cbn [bind].
  rewrite R0. cbn [bind]. change (c_star =? c_dot) with false. cbv iota. cbn [bind].
  change (pm_fuel [c_star]) with 2%nat. cbn [pm_loop].
  rewrite R0. cbn [bind]. change (c_star =? 0) with false. change (c_star =? c_qmark) with false.
  change (c_star =? c_star) with true. cbv iota.
  change (skip_char (pfuel [c_star]) c_star [c_star] 0) with (@Ok nat 1%nat). cbn [bind].
  rewrite R1. cbn [bind]. reflexivity.
Qed.

(* ---- character classes *)
Definition simplec (c : N) : bool := negb (c =? 0) && negb (c =? c_dash) && negb (c =? c_bslash).

Lemma simplec_inv : forall c, simplec c = true ->
  (c =? 0) = false /\ (c =? c_dash) = false /\ (c =? c_bslash) = false.
Proof.
  intros c H. unfold simplec in H. repeat (apply andb_prop in H; destruct H as [H ?]).
  repeat match goal with X : negb _ = true |- _ => apply negb_true_iff in X end. tauto.
Qed.

Lemma pm_list_loop_simple : forall c mt nm post body pre k rs,
  forallb simplec body = true -> (length body + 1 <= k)%nat ->
  pm_list_loop k (pre ++ body ++ post) (length pre) (length pre + length body) rs c mt nm
  = Ok (if existsb (N.eqb c) body then mt else nm).
Proof.
  intros c mt nm post. induction body as [|ch t IH]; intros pre k rs Hb Hk.
  - destruct k; [lia|]. cbn [pm_list_loop length existsb].
    replace (length pre <? length pre + 0)%nat with false by (symmetry; apply Nat.ltb_ge; lia). reflexivity.
  - destruct k; [cbn in Hk; lia|]. cbn [pm_list_loop].
    replace (length pre <? length pre + length (ch :: t))%nat with true
      by (symmetry; apply Nat.ltb_lt; cbn [length]; lia).
    cbn [app]. rewrite rd_app0. cbn [bind].
    cbn [forallb] in Hb. apply andb_prop in Hb. destruct Hb as [Hch Ht].
    destruct (simplec_inv ch Hch) as [E0 [E1 E2]]. rewrite E1, E2.
    cbn [existsb]. rewrite (N.eqb_sym c ch). destruct (ch =? c); cbn [orb]; [reflexivity|].
    replace (pre ++ ch :: t ++ post) with ((pre ++ [ch]) ++ t ++ post) by (rewrite <- app_assoc; reflexivity).
    replace (length pre + 1)%nat with (length (pre ++ [ch])) by (rewrite app_length; reflexivity).
    replace (length pre + length (ch :: t))%nat with (length (pre ++ [ch]) + length t)%nat
      by (rewrite app_length; cbn [length]; lia).
    apply IH; [assumption|cbn [length] in Hk; lia].
Qed.

(* [abc] : a class of ordinary characters accepts exactly its members *)
Theorem class_members : forall pre body post c,
  forallb simplec body = true -> hd 0 body <> c_bang -> hd 0 body <> c_caret ->
  pm_list (pre ++ body ++ c_rbrack :: post) (length pre) (length pre + length body) c
  = Ok (existsb (N.eqb c) body).
Proof.
  intros pre body post c Hb H1 H2. unfold pm_list.
  assert (Hc0 : exists c0, rd (pre ++ body ++ c_rbrack :: post) (length pre) = Ok c0 /\
                           (c0 =? c_bang) = false /\ (c0 =? c_caret) = false).
  { destruct body as [|b t]; cbn [app]; rewrite rd_app0; eexists; split; try reflexivity.
    - split; reflexivity.
    - cbn [hd] in H1, H2. split; apply N.eqb_neq; assumption. }
  destruct Hc0 as [c0 [Hc0 [Eb Ec]]]. rewrite Hc0. cbn [bind]. rewrite Eb, Ec. cbn [orb andb].
  rewrite pm_list_loop_simple; [|assumption|lia].
  destruct (existsb (N.eqb c) body); reflexivity.
Qed.

(* [!abc] and [^abc] accept exactly the non-members *)
Theorem class_negated : forall pre neg body post c,
  neg = c_bang \/ neg = c_caret -> forallb simplec body = true ->
  pm_list (pre ++ (neg :: body) ++ c_rbrack :: post) (length pre) (length pre + length (neg :: body)) c
  = Ok (negb (existsb (N.eqb c) body)).
Proof.
  intros pre neg body post c Hneg Hb. unfold pm_list. cbn [app]. rewrite rd_app0. cbn [bind].
  replace ((neg =? c_bang) || (neg =? c_caret)) with true
    by (destruct Hneg; subst neg; reflexivity).
  replace (length pre <? length pre + length (neg :: body))%nat with true
    by (symmetry; apply Nat.ltb_lt; cbn [length]; lia).
  cbn [andb].
  replace (pre ++ neg :: body ++ c_rbrack :: post) with ((pre ++ [neg]) ++ body ++ c_rbrack :: post)
    by (rewrite <- app_assoc; reflexivity).
  replace (length pre + 1)%nat with (length (pre ++ [neg])) by (rewrite app_length; reflexivity).
  replace (length pre + length (neg :: body))%nat with (length (pre ++ [neg]) + length body)%nat
    by (rewrite app_length; cbn [length]; lia).
  rewrite pm_list_loop_simple; [|assumption|rewrite app_length; cbn [length]; lia].
  destruct (existsb (N.eqb c) body); reflexivity.
Qed.

(* [a-b] accepts the characters between a and b, compared as (signed) chars *)
Theorem class_range : forall pre a b post c,
  simplec a = true -> a <> c_bang -> a <> c_caret -> b <> c_bslash ->
  pm_list (pre ++ [a; c_dash; b] ++ c_rbrack :: post) (length pre) (length pre + 3) c
  = Ok ((a =? c) || ((sc a <=? sc c)%Z && (sc c <=? sc b)%Z)).
Proof.
  intros pre a b post c Ha H1 H2 Hb. unfold pm_list. cbn [app]. rewrite rd_app0. cbn [bind].
  apply N.eqb_neq in H1, H2, Hb. rewrite H1, H2. cbn [orb andb].
  destruct (simplec_inv a Ha) as [E0 [E1 E2]].
  replace (S (length pre + 3 - length pre)) with 4%nat by lia.
  cbn [pm_list_loop].
  replace (length pre <? length pre + 3)%nat with true by (symmetry; apply Nat.ltb_lt; lia).
  rewrite rd_app0. cbn [bind]. rewrite E1, E2.
  destruct (a =? c); cbn [orb]; [reflexivity|].
  replace (length pre + 1 <? length pre + 3)%nat with true by (symmetry; apply Nat.ltb_lt; lia).
  replace (pre ++ a :: c_dash :: b :: c_rbrack :: post) with (pre ++ [a; c_dash; b; c_rbrack] ++ post) by reflexivity.
  rewrite (rd_app pre ([a; c_dash; b; c_rbrack] ++ post) 1) by (cbn; lia).
  cbn [app nth bind]. rewrite N.eqb_refl. rewrite E0.
  replace (length pre + 1 =? length pre + 3 - 1)%nat with false by (symmetry; apply Nat.eqb_neq; lia).
  cbn [orb].
  replace (length pre + 1 + 1)%nat with (length pre + 2)%nat by lia.
  replace (pre ++ a :: c_dash :: b :: c_rbrack :: post) with (pre ++ [a; c_dash; b; c_rbrack] ++ post) by reflexivity.
  rewrite (rd_app pre ([a; c_dash; b; c_rbrack] ++ post) 2) by (cbn; lia).
  cbn [app nth bind]. rewrite Hb.
  destruct ((sc a <=? sc c)%Z && (sc c <=? sc b)%Z); [reflexivity|].
  replace (length pre + 1 + 2 <? length pre + 3)%nat with false by (symmetry; apply Nat.ltb_ge; lia).
  reflexivity.
Qed.

(* ================================================================== Part 3: archive_match criteria *)
(* ---- owner ids *)
Lemma add_owner_id_cons : forall x t id,
  add_owner_id (x :: t) id =
  if (x >=? id)%Z then (if (x =? id)%Z then x :: t else id :: x :: t) else x :: add_owner_id t id.
Proof.
  intros x t id. unfold add_owner_id. cbn [insert_point].
  destruct (x >=? id)%Z.
  - cbn [length Nat.eqb nth firstn skipn app]. reflexivity.
  - cbn [length Nat.eqb nth firstn skipn app].
    destruct (insert_point t id =? length t)%nat; [reflexivity|].
    destruct (nth (insert_point t id) t 0 =? id)%Z; reflexivity.
Qed.

Lemma add_owner_id_In : forall l id y, In y (add_owner_id l id) <-> y = id \/ In y l.
Proof.
  induction l as [|x t IH]; intros id y.
  - cbn. intuition.
  - rewrite add_owner_id_cons. destruct (x >=? id)%Z.
    + destruct (x =? id)%Z eqn:E.
      * apply Z.eqb_eq in E. subst x. cbn [In]. intuition.
      * cbn [In]. intuition.
    + cbn [In]. rewrite IH. intuition.
Qed.

(* add_owner_id keeps the array strictly increasing (no duplicates) *)
Theorem add_owner_id_sorted : forall l id,
  StronglySorted Z.lt l -> StronglySorted Z.lt (add_owner_id l id).
Proof.
  induction l as [|x t IH]; intros id Hs.
  - cbn. constructor; constructor.
  - rewrite add_owner_id_cons. inversion Hs as [|? ? Ht Hx]; subst.
    destruct (x >=? id)%Z eqn:Ege.
    + destruct (x =? id)%Z eqn:E; [assumption|].
      apply Z.eqb_neq in E. apply Z.geb_le in Ege.
      constructor; [assumption|]. constructor; [lia|].
      rewrite Forall_forall in *. intros y Hy. specialize (Hx y Hy). lia.
    + constructor; [apply IH; assumption|].
      rewrite Forall_forall in *. intros y Hy. apply add_owner_id_In in Hy.
      destruct Hy as [->|Hy]; [|auto].
      rewrite Z.geb_leb in Ege. apply Z.leb_gt in Ege. lia.
Qed.

Lemma sorted_nth_lt : forall l, StronglySorted Z.lt l ->
  forall i j, (i < j)%nat -> (j < length l)%nat -> (nth i l 0 < nth j l 0)%Z.
Proof.
  induction l as [|x t IH]; intros Hs i j Hij Hj; [cbn in Hj; lia|].
  inversion Hs as [|? ? Ht Hx]; subst. destruct j; [lia|]. cbn [length] in Hj.
  destruct i.
  - cbn [nth]. rewrite Forall_forall in Hx. apply Hx. apply nth_In. lia.
  - cbn [nth]. apply IH; [assumption|lia|lia].
Qed.

Lemma bsearch_correct : forall l id, StronglySorted Z.lt l -> forall k t b,
  (t <= b)%nat -> (b <= length l)%nat -> (b - t + 1 <= k)%nat ->
  (forall i, (i < t)%nat -> (nth i l 0 < id)%Z) ->
  (forall i, (b <= i)%nat -> (i < length l)%nat -> (id < nth i l 0)%Z) ->
  exists r, bsearch k l id t b = Ok r /\ (r = true <-> In id l).
Proof.
  intros l id Hs. induction k as [|k IH]; intros t b Htb Hb Hk Hlo Hhi; [lia|].
  cbn [bsearch]. destruct (t <? b)%nat eqn:Elt.
  - apply Nat.ltb_lt in Elt.
    assert (Hm : (t <= Nat.div2 (t + b))%nat /\ (Nat.div2 (t + b) < b)%nat).
    { rewrite Nat.div2_div. split.
      - apply Nat.div_le_lower_bound; lia.
      - apply Nat.div_lt_upper_bound; lia. }
    set (m := Nat.div2 (t + b)) in *. destruct Hm as [Hm1 Hm2].
    rewrite (nth_error_nth' l 0%Z) by lia.
    destruct (nth m l 0 =? id)%Z eqn:Eeq.
    + apply Z.eqb_eq in Eeq. exists true. split; [reflexivity|]. split; [intros _|reflexivity].
      rewrite <- Eeq. apply nth_In. lia.
    + apply Z.eqb_neq in Eeq. destruct (nth m l 0 <? id)%Z eqn:Eltz.
      * apply Z.ltb_lt in Eltz. apply IH; try lia; [|assumption].
        intros i Hi. destruct (Nat.eq_dec i m) as [->|]; [assumption|].
        assert (nth i l 0 < nth m l 0)%Z by (apply sorted_nth_lt; try assumption; lia). lia.
      * apply Z.ltb_ge in Eltz. apply IH; try lia; [assumption|].
        intros i Hi Hil. destruct (Nat.eq_dec i m) as [->|]; [lia|].
        assert (nth m l 0 < nth i l 0)%Z by (apply sorted_nth_lt; try assumption; lia). lia.
  - apply Nat.ltb_ge in Elt. exists false. split; [reflexivity|]. split; [discriminate|].
    intros Hin. exfalso. destruct (In_nth l id 0%Z Hin) as [i [Hi Hnth]].
    destruct (Nat.lt_ge_cases i t) as [H|H].
    + specialize (Hlo i H). lia.
    + assert (b <= i)%nat by lia. specialize (Hhi i H0 Hi). lia.
Qed.

(* on a sorted array the binary search is membership; its reads stay inside the array and its
   fuel suffices *)
Theorem match_owner_id_correct : forall l id, StronglySorted Z.lt l ->
  exists r, match_owner_id l id = Ok r /\ (r = true <-> In id l).
Proof.
  intros l id Hs. unfold match_owner_id.
  apply bsearch_correct; try assumption; try lia.
Qed.

(* every array built by archive_match_include_uid/gid is sorted *)
Theorem owner_ids_sorted : forall ids, StronglySorted Z.lt (fold_left add_owner_id ids []).
Proof.
  intros ids. assert (H : forall l, StronglySorted Z.lt l -> StronglySorted Z.lt (fold_left add_owner_id ids l)).
  { induction ids as [|x t IH]; intros l Hl; [exact Hl|]. cbn [fold_left]. apply IH. apply add_owner_id_sorted. exact Hl. }
  apply H. constructor.
Qed.

Lemma fold_add_In : forall ids l y, In y (fold_left add_owner_id ids l) <-> In y ids \/ In y l.
Proof.
  induction ids as [|x t IH]; intros l y; cbn [fold_left In]; [tauto|].
  rewrite IH, add_owner_id_In. intuition; subst; auto.
Qed.

(* end to end: after include_uid id_1 ... id_n, an id is accepted iff it is one of them *)
Theorem owner_included_iff : forall ids id,
  exists r, match_owner_id (fold_left add_owner_id ids []) id = Ok r /\ (r = true <-> In id ids).
Proof.
  intros ids id. destruct (match_owner_id_correct _ id (owner_ids_sorted ids)) as [r [Hr Hiff]].
  exists r. split; [exact Hr|]. rewrite Hiff, fold_add_In. cbn [In]. tauto.
Qed.

(* ---- times: the newer/older/equal table on (sec, nsec) *)
Definition tlt (s n fs fn : Z) : Prop := (s < fs \/ (s = fs /\ n < fn))%Z.

Theorem newer_table : forall f fs fn s n,
  newer_excludes f fs fn s n = true <->
  f <> 0 /\ (tlt s n fs fn \/ (s = fs /\ n = fn /\ has f AM_EQUAL = false)).
Proof.
  intros. unfold newer_excludes, tlt. destruct (f =? 0) eqn:E0.
  - apply N.eqb_eq in E0. split; [discriminate|]. intros [H _]. contradiction.
  - apply N.eqb_neq in E0.
    destruct (s <? fs)%Z eqn:E1; [apply Z.ltb_lt in E1; split; [intros _; split; [assumption|lia]|reflexivity]|].
    apply Z.ltb_ge in E1. destruct (s =? fs)%Z eqn:E2.
    + apply Z.eqb_eq in E2. destruct (n <? fn)%Z eqn:E3.
      * apply Z.ltb_lt in E3. split; [intros _; split; [assumption|lia]|reflexivity].
      * apply Z.ltb_ge in E3. destruct (n =? fn)%Z eqn:E4.
        -- apply Z.eqb_eq in E4. cbn [andb]. rewrite negb_true_iff.
           split; [intros H; split; [assumption|right; tauto]|]. intros [_ [H|H]]; [lia|tauto].
        -- apply Z.eqb_neq in E4. cbn [andb]. split; [discriminate|]. intros [_ [H|H]]; lia.
    + apply Z.eqb_neq in E2. split; [discriminate|]. intros [_ [H|H]]; lia.
Qed.

Theorem older_table : forall f fs fn s n,
  older_excludes f fs fn s n = true <->
  f <> 0 /\ (tlt fs fn s n \/ (s = fs /\ n = fn /\ has f AM_EQUAL = false)).
Proof.
  intros. unfold older_excludes, tlt. destruct (f =? 0) eqn:E0.
  - apply N.eqb_eq in E0. split; [discriminate|]. intros [H _]. contradiction.
  - apply N.eqb_neq in E0.
    destruct (s >? fs)%Z eqn:E1.
    { rewrite Z.gtb_ltb in E1. apply Z.ltb_lt in E1. split; [intros _; split; [assumption|lia]|reflexivity]. }
    rewrite Z.gtb_ltb in E1. apply Z.ltb_ge in E1. destruct (s =? fs)%Z eqn:E2.
    + apply Z.eqb_eq in E2. destruct (n >? fn)%Z eqn:E3.
      * rewrite Z.gtb_ltb in E3. apply Z.ltb_lt in E3. split; [intros _; split; [assumption|lia]|reflexivity].
      * rewrite Z.gtb_ltb in E3. apply Z.ltb_ge in E3. destruct (n =? fn)%Z eqn:E4.
        -- apply Z.eqb_eq in E4. cbn [andb]. rewrite negb_true_iff.
           split; [intros H; split; [assumption|right; tauto]|]. intros [_ [H|H]]; [lia|tauto].
        -- apply Z.eqb_neq in E4. cbn [andb]. split; [discriminate|]. intros [_ [H|H]]; lia.
    + apply Z.eqb_neq in E2. split; [discriminate|]. intros [_ [H|H]]; lia.
Qed.

(* ---- path_excluded *)
(* verdict of the (guarded) matcher as a boolean; total by archive_pathmatch_safe *)
Definition pmb (pat path : list N) (fl : N) : bool :=
  match archive_pathmatch_gen true pat path fl with Ok b => b | _ => false end.

Lemma pmb_ok : forall pat path fl, archive_pathmatch_gen true pat path fl = Ok (pmb pat path fl).
Proof.
  intros. unfold pmb. destruct (archive_pathmatch_safe pat path fl) as [b H]. rewrite H. reflexivity.
Qed.

Definition incl_flag (rec : bool) : N := if rec then 2 else 0.
Definition mark1 (rec : bool) (path : list N) (x : list N * bool) : list N * bool :=
  (fst x, snd x || pmb (fst x) path (incl_flag rec)).
Definition newly (rec : bool) (path : list N) (x : list N * bool) : bool :=
  negb (snd x) && pmb (fst x) path (incl_flag rec).

Lemma mark_inclusions_spec : forall rec path l,
  mark_inclusions true rec l path =
  Ok (map (mark1 rec path) l, Z.of_nat (length (filter (newly rec path) l)), existsb (newly rec path) l).
Proof.
  intros rec path. induction l as [|[pat m] t IH]; [reflexivity|].
  cbn [mark_inclusions]. unfold match_path_inclusion. fold (incl_flag rec). rewrite IH.
  cbn [map filter existsb].
  assert (Em : mark1 rec path (pat, m) = (pat, m || pmb pat path (incl_flag rec))) by reflexivity.
  assert (En : newly rec path (pat, m) = negb m && pmb pat path (incl_flag rec)) by reflexivity.
  rewrite Em, En. clear Em En IH.
  destruct m; cbn [bind negb andb orb]; [reflexivity|].
  rewrite pmb_ok. cbn [bind].
  destruct (pmb pat path (incl_flag rec)); cbn [length]; [|reflexivity].
  rewrite Nat2Z.inj_succ. unfold Z.succ. reflexivity.
Qed.

Lemma any_exclusion_spec : forall path l,
  any_exclusion true l path = Ok (existsb (fun pat => pmb pat path 3) l).
Proof.
  intros path. induction l as [|pat t IH]; [reflexivity|].
  cbn [any_exclusion existsb]. unfold match_path_exclusion. rewrite pmb_ok. cbn [bind].
  destruct (pmb pat path 3); [reflexivity|exact IH].
Qed.

Lemma any_matched_spec : forall rec path l,
  any_matched_inclusion true rec l path = Ok (existsb (fun x => snd x && pmb (fst x) path (incl_flag rec)) l).
Proof.
  intros rec path. induction l as [|[pat m] t IH]; [reflexivity|].
  cbn [any_matched_inclusion existsb fst snd]. unfold match_path_inclusion. fold (incl_flag rec).
  destruct m; cbn [andb].
  - rewrite pmb_ok. cbn [bind]. destruct (pmb pat path (incl_flag rec)); [reflexivity|exact IH].
  - cbn [bind]. exact IH.
Qed.

Lemma existsb_marked : forall rec path l,
  existsb (fun x => snd x && pmb (fst x) path (incl_flag rec)) (map (mark1 rec path) l)
  = existsb (fun x => pmb (fst x) path (incl_flag rec)) l.
Proof.
  intros rec path. induction l as [|[pat m] t IH]; [reflexivity|].
  cbn [map existsb]. rewrite IH.
  assert (Em : mark1 rec path (pat, m) = (pat, m || pmb pat path (incl_flag rec))) by reflexivity.
  rewrite Em. cbn [fst snd].
  destruct m, (pmb pat path (incl_flag rec)); reflexivity.
Qed.

Lemma newly_implies : forall rec path l,
  existsb (newly rec path) l = true -> existsb (fun x => pmb (fst x) path (incl_flag rec)) l = true.
Proof.
  intros rec path l H. apply existsb_exists in H. destruct H as [x [Hin Hx]].
  apply existsb_exists. exists x. split; [assumption|].
  unfold newly in Hx. apply andb_prop in Hx. tauto.
Qed.

(* the verdict of path_excluded in one formula *)
Definition path_verdict (a : mstate) (path : list N) : Z :=
  if existsb (fun pat => pmb pat path 3) (exclusions a) then 1%Z          (* exclusions win *)
  else if existsb (fun x => pmb (fst x) path (incl_flag (recursive_include a))) (inclusions a) then 0%Z
  else match inclusions a with [] => 0%Z | _ => 1%Z end.

Theorem path_excluded_spec : forall a path,
  exists a', path_excluded true a path = Ok (a', path_verdict a path) /\
    inclusions a' = map (mark1 (recursive_include a) path) (inclusions a) /\
    unmatched_count a' =
      (unmatched_count a - Z.of_nat (length (filter (newly (recursive_include a) path) (inclusions a))))%Z /\
    exclusions a' = exclusions a /\ recursive_include a' = recursive_include a.
Proof.
  intros a path. unfold path_excluded, path_verdict.
  rewrite mark_inclusions_spec. cbn [bind]. rewrite any_exclusion_spec. cbn [bind].
  set (rec := recursive_include a).
  exists (set_incl a (map (mark1 rec path) (inclusions a))
                   (unmatched_count a - Z.of_nat (length (filter (newly rec path) (inclusions a))))).
  split; [|cbn [inclusions unmatched_count exclusions recursive_include set_incl]; repeat split; reflexivity].
  destruct (existsb (fun pat => pmb pat path 3) (exclusions a)); [reflexivity|].
  destruct (existsb (newly rec path) (inclusions a)) eqn:En.
  - rewrite (newly_implies rec path _ En). reflexivity.
  - rewrite any_matched_spec. cbn [bind]. rewrite existsb_marked.
    destruct (existsb (fun x => pmb (fst x) path (incl_flag rec)) (inclusions a)); [reflexivity|].
    destruct (inclusions a); reflexivity.
Qed.

(* consequences, in the words of the property *)
Theorem exclusion_wins : forall a path pat,
  In pat (exclusions a) -> pmb pat path 3 = true ->
  exists a', path_excluded true a path = Ok (a', 1%Z).
Proof.
  intros a path pat Hin Hm. destruct (path_excluded_spec a path) as [a' [H _]].
  exists a'. rewrite H. f_equal. f_equal. unfold path_verdict.
  replace (existsb (fun pat0 => pmb pat0 path 3) (exclusions a)) with true; [reflexivity|].
  symmetry. apply existsb_exists. exists pat. tauto.
Qed.

Theorem inclusion_default : forall a path,
  existsb (fun pat => pmb pat path 3) (exclusions a) = false ->
  exists a', path_excluded true a path =
    Ok (a', match inclusions a with
            | [] => 0%Z
            | _ => if existsb (fun x => pmb (fst x) path (incl_flag (recursive_include a))) (inclusions a)
                   then 0%Z else 1%Z
            end).
Proof.
  intros a path Hex. destruct (path_excluded_spec a path) as [a' [H _]].
  exists a'. rewrite H. f_equal. f_equal. unfold path_verdict. rewrite Hex.
  destruct (inclusions a); reflexivity.
Qed.

(* bookkeeping: unmatched_count is the number of inclusions whose matched flag is clear *)
Definition count_ok (a : mstate) : Prop :=
  unmatched_count a = Z.of_nat (length (filter (fun x => negb (snd x)) (inclusions a))).

Lemma count_ok_init : count_ok ms_init.
Proof. reflexivity. Qed.

Lemma count_ok_include : forall a pat, count_ok a -> count_ok (fst (include_pattern a pat)).
Proof.
  intros a pat H. unfold include_pattern. destruct pat; [exact H|].
  unfold count_ok in *. cbn [fst unmatched_count inclusions].
  rewrite filter_app, app_length. cbn [filter snd negb length]. rewrite H. lia.
Qed.

Lemma count_ok_exclude : forall a pat, count_ok a -> count_ok (fst (exclude_pattern a pat)).
Proof. intros a pat H. unfold exclude_pattern. destruct pat; exact H. Qed.

Lemma filter_mark_count : forall rec path l,
  (length (filter (fun x => negb (snd x)) l) =
   length (filter (fun x => negb (snd x)) (map (mark1 rec path) l)) + length (filter (newly rec path) l))%nat.
Proof.
  intros rec path. induction l as [|[pat m] t IH]; [reflexivity|].
  cbn [map filter].
  assert (Em : mark1 rec path (pat, m) = (pat, m || pmb pat path (incl_flag rec))) by reflexivity.
  assert (En : newly rec path (pat, m) = negb m && pmb pat path (incl_flag rec)) by reflexivity.
  rewrite Em, En. cbn [fst snd].
  destruct m; cbn [negb andb orb]; [exact IH|].
  destruct (pmb pat path (incl_flag rec)); cbn [negb length]; lia.
Qed.

Theorem unmatched_bookkeeping : forall a path a' v,
  count_ok a -> path_excluded true a path = Ok (a', v) -> count_ok a'.
Proof.
  intros a path a' v H E. destruct (path_excluded_spec a path) as [a2 [E2 [Hi [Hc _]]]].
  rewrite E in E2. inversion E2. subst a2. unfold count_ok in *. rewrite Hc, Hi, H.
  rewrite (filter_mark_count (recursive_include a) path (inclusions a)). lia.
Qed.

(* an inclusion pattern is reported as unmatched until some queried path matched it *)
Theorem matched_flag_meaning : forall a path a' v pat m,
  path_excluded true a path = Ok (a', v) ->
  In (pat, m) (inclusions a) ->
  In (pat, m || pmb pat path (incl_flag (recursive_include a))) (inclusions a').
Proof.
  intros a path a' v pat m E Hin. destruct (path_excluded_spec a path) as [a2 [E2 [Hi _]]].
  rewrite E in E2. inversion E2. subst a2. rewrite Hi.
  apply in_map_iff. exists (pat, m). split; [reflexivity|assumption].
Qed.
