(* val -> val front end of the pattern/criteria matching model (correspondence protocol).
   case (0 pattern subject)      -> ((r0 r1 r2 r3) (r0 r1 r2 r3)) : __archive_pathmatch for flags 0..3
                                    (the harness prints the narrow results, then the wide ones);
                                    an out-of-bounds read of the model prints -1, fuel exhaustion -2
   case (1 (op ...))             -> one result per archive_match_* call (see op_of_val)
   The shape of `case '['` (guarded or not) is the one the translator found in the tree. *)
From Coq Require Import List ZArith NArith Bool.
From LA Require Import Base.Val Gen.Pathmatch Match.PathmatchDefs.
Import ListNotations.

Definition guard := class_guard.

Definition val_of_res (r : res bool) : val :=
  match r with
  | Ok b => Vbool b
  | OobRead => VI (-1)
  | OutOfFuel => VI (-2)
  end.

Definition run_pathmatch (p s : bytes) : val :=
  let l := map (fun fl => val_of_res (archive_pathmatch_gen guard p s fl)) [0; 1; 2; 3]%N in
  VL [VL l; VL l].

Definition optname (v : val) : option bytes :=
  match lval v with
  | [VB b] => Some b
  | _ => None
  end.

Definition combined (a : mstate) (path : bytes) (msec mnsec : Z) (cset : bool) (csec cnsec uid gid : Z)
           (un gn : option bytes) : res (mstate * Z) :=
  do x <- (if N.eqb (N.land (setflag a) PATTERN_IS_SET) 0 then Ok (a, 0%Z) else path_excluded guard a path) ;;
  let '(a', r) := x in
  if negb (Z.eqb r 0) then Ok (a', r)
  else
    let rt := if N.eqb (N.land (setflag a') TIME_IS_SET) 0 then false
              else time_excluded a' path msec mnsec cset csec cnsec in
    if rt then Ok (a', 1%Z)
    else if N.eqb (N.land (setflag a') ID_IS_SET) 0 then Ok (a', 0%Z)
    else do ro <- owner_excluded a' uid gid un gn ;; Ok (a', if ro then 1%Z else 0%Z).

(* one archive_match_* call: new state and printed result *)
Definition step (a : mstate) (v : val) : res (mstate * val) :=
  let l := lval v in
  let arg k := vnth l k in
  match l with
  | VI 0%Z :: _ => let '(a', r) := include_pattern a (bval (arg 1%nat)) in Ok (a', VI r)
  | VI 1%Z :: _ => let '(a', r) := exclude_pattern a (bval (arg 1%nat)) in Ok (a', VI r)
  | VI 2%Z :: _ => do x <- api_path_excluded guard a (bval (arg 1%nat)) ;; Ok (fst x, VI (snd x))
  | VI 3%Z :: _ => Ok (a, VI (unmatched_count a))
  | VI 4%Z :: _ => let '(a', (r, o)) := unmatched_inclusions_next a in Ok (a', VL [VI r; Vopt VB o])
  | VI 5%Z :: _ => Ok (set_recursion a (boolval (arg 1%nat)), VI 0)
  | VI 6%Z :: _ => Ok (include_uid a (zval (arg 1%nat)), VI 0)
  | VI 7%Z :: _ => Ok (include_gid a (zval (arg 1%nat)), VI 0)
  | VI 8%Z :: _ => Ok (include_uname a (bval (arg 1%nat)), VI 0)
  | VI 9%Z :: _ => Ok (include_gname a (bval (arg 1%nat)), VI 0)
  | VI 10%Z :: _ =>
    do r <- api_owner_excluded a (zval (arg 1%nat)) (zval (arg 2%nat)) (optname (arg 3%nat)) (optname (arg 4%nat)) ;;
    Ok (a, VI r)
  | VI 11%Z :: _ =>
    let '(a', r) := include_time a (nval (arg 1%nat)) (zval (arg 2%nat)) (zval (arg 3%nat)) in Ok (a', VI r)
  | VI 12%Z :: _ =>
    let '(a', r) := exclude_entry a (mkMf (bval (arg 2%nat)) (nval (arg 1%nat)) (zval (arg 3%nat)) (zval (arg 4%nat))
                                           (zval (arg 5%nat)) (zval (arg 6%nat))) in
    Ok (a', VI r)
  | VI 13%Z :: _ =>
    Ok (a, VI (api_time_excluded a (bval (arg 1%nat)) (zval (arg 2%nat)) (zval (arg 3%nat)) (boolval (arg 4%nat))
                                 (zval (arg 5%nat)) (zval (arg 6%nat))))
  | VI 14%Z :: _ =>
    do x <- combined a (bval (arg 1%nat)) (zval (arg 2%nat)) (zval (arg 3%nat)) (boolval (arg 4%nat))
                     (zval (arg 5%nat)) (zval (arg 6%nat)) (zval (arg 7%nat)) (zval (arg 8%nat))
                     (optname (arg 9%nat)) (optname (arg 10%nat)) ;;
    Ok (fst x, VI (snd x))
  | _ => Ok (a, VErr 1)
  end.

Fixpoint steps (a : mstate) (ops : list val) : list val :=
  match ops with
  | [] => []
  | op :: t =>
    match step a op with
    | Ok (a', v) => v :: steps a' t
    | OobRead => [VI (-1)]          (* the model stops at the first out-of-bounds read *)
    | OutOfFuel => [VI (-2)]
    end
  end.

Definition run (v : val) : val :=
  let l := lval v in
  match l with
  | VI 0%Z :: _ => run_pathmatch (bval (vnth l 1)) (bval (vnth l 2))
  | VI 1%Z :: _ => VL (steps ms_init (lval (vnth l 1)))
  | _ => VErr 0
  end.
