(* C03 - Filter (compression / encoding) round trip is the identity.
   Property theorems only; each is closed by [exact] of a lemma of Codec/CodecProofs.v.

   What is proved, and for what:
   * uuencode and b64encode WRITE filters + the client re-blocking layer (model: CodecDefs.v,
     tied to the code by correspondence on the exact callback blocks): for every partition of
     the stream into write calls, every bytes_per_block and every mode/name option the bytes
     emitted are one pure function of the concatenated input (chunking theorems).
   * uu READ filter (bidder + decoder, both encodings), modelled over the whole stream: it decodes
     that pure function back to the input and its bidder accepts it (round-trip theorems).  These
     are named _partial: the decoder model does not contain the window (read-block) dependent
     behaviour of the streaming C code (listed at [uu_loop] in CodecDefs.v), and they hold for the
     option values the reader can parse (mode prints as three octal digits, printable name,
     non-empty stream for the bidder).  The excluded option values and the empty stream are not
     gaps of the proof: the statement is FALSE there, see the _refuted theorems.
   * gzip / bzip2 / xz / lzma / lzip / zstd / lz4 / compress: the libraries are not modelled.  What
     is proved is the glue: the avail_in / avail_out drive loop forwards exactly header ++ library
     output for every chunking and buffer size, and a reader that restarts on a following member
     decodes a concatenation of members to the concatenation of the payloads, for ANY codec
     satisfying the stated hypotheses (Section variables).  The identity for the real libraries is
     checked by the spec-level oracle of props/C03.py only. *)
From Coq Require Import List ZArith NArith Bool Lia.
From LA Require Import Base.Val Gen.Codec Codec.CodecDefs Codec.CodecProofs.
Import ListNotations.
Local Open Scope N_scope.

(* ---------------------------------------------------------------- writers: any chunking *)
(* For ALL partitions of the input into write calls (empty calls included), all bytes_per_block
   and all option strings: the real call sequence add_filter_b64encode; set_format_raw;
   set_bytes_per_block(bpb); options; open; header; write_data(chunk)...; close hands the client
   callback blocks whose concatenation is header ++ body lines ++ trailer of concat(chunks), and
   with bpb > 0 every block but the last is exactly bpb bytes long. *)
Theorem C03_b64_chunking : forall bpb mode name chunks,
  exists blocks, run_writer KB64 bpb mode name chunks = Some blocks /\
                 concat blocks = encode_all KB64 (opt_mode KB64 mode) (opt_name KB64 name) (concat chunks) /\
                 (0 < bpb -> Forall (fun b => length b = N.to_nat bpb) (removelast blocks)).
Proof. exact (chunking KB64). Qed.
Print Assumptions C03_b64_chunking.

Theorem C03_uu_chunking : forall bpb mode name chunks,
  exists blocks, run_writer KUU bpb mode name chunks = Some blocks /\
                 concat blocks = encode_all KUU (opt_mode KUU mode) (opt_name KUU name) (concat chunks) /\
                 (0 < bpb -> Forall (fun b => length b = N.to_nat bpb) (removelast blocks)).
Proof. exact (chunking KUU). Qed.
Print Assumptions C03_uu_chunking.

(* ---------------------------------------------------------------- decode (encode s) = s *)
(* For ALL byte strings s (every byte < 256), every mode with three octal digits and every
   non-empty printable name shorter than 131000 bytes: the uu read filter model decodes the
   base64 form back to s.  PARTIAL: whole-stream decoder model (see header comment); outside the
   stated mode/name range the statement is false (C03_uu_mode_below_0100_refuted, ..). *)
Theorem C03_b64_roundtrip_partial : forall mode name s,
  64 <= mode < 512 -> name_ok name -> bytes_ok s ->
  uu_decode (encode_all KB64 mode name s) = Some s.
Proof. exact (roundtrip KB64). Qed.
Print Assumptions C03_b64_roundtrip_partial.

Theorem C03_uu_roundtrip_partial : forall mode name s,
  64 <= mode < 512 -> name_ok name -> bytes_ok s ->
  uu_decode (encode_all KUU mode name s) = Some s.
Proof. exact (roundtrip KUU). Qed.
Print Assumptions C03_uu_roundtrip_partial.

(* signature clause: the bidder model accepts every non-empty encoder output.
   PARTIAL: the empty stream is excluded because the statement is false there
   (C03_uu_empty_stream_refuted). *)
Theorem C03_bid_positive_partial : forall k mode name s,
  64 <= mode < 512 -> name_ok name -> bytes_ok s -> s <> [] ->
  0 < uu_bid (encode_all k mode name s).
Proof. exact bid_positive. Qed.
Print Assumptions C03_bid_positive_partial.

(* writer -> reader with only the uu filter enabled: same filter codes in the same order
   (uu, none) and exactly the original bytes, provided the payload does not itself look like a
   uuencoded stream to the bidder (the statement's signature proviso).  PARTIAL as above. *)
Theorem C03_reader_roundtrip_partial : forall k bpb mode name chunks blocks,
  run_writer k bpb mode name chunks = Some blocks ->
  64 <= opt_mode k mode < 512 -> name_ok (opt_name k name) -> bytes_ok (concat chunks) ->
  concat chunks <> [] -> uu_bid (concat chunks) = 0 ->
  read_uu_only (concat blocks) = Some ([ARCHIVE_FILTER_UU; ARCHIVE_FILTER_NONE], concat chunks).
Proof.
  intros k bpb mode name chunks blocks H Hm Hn Hs Hne Hb.
  destruct (chunking k bpb mode name chunks) as (blocks' & E & C & _).
  rewrite H in E. inversion E; subst blocks'. rewrite C.
  exact (reader_roundtrip k _ _ _ Hm Hn Hs Hne Hb).
Qed.
Print Assumptions C03_reader_roundtrip_partial.

(* ---------------------------------------------------------------- where the identity fails *)
(* the empty stream: neither bidder accepts the writer's output, the reader hands back the
   encoded text (reproduced on the real code: props/C03.py key C03:uu:empty-stream-not-recognised) *)
Theorem C03_uu_empty_stream_refuted :
  exists k mode name, 64 <= mode < 512 /\ name_ok name /\
    uu_bid (encode_all k mode name []) = 0 /\
    read_uu_only (encode_all k mode name []) <> Some ([ARCHIVE_FILTER_UU; ARCHIVE_FILTER_NONE], []).
Proof.
  exists KUU, 420, dash. split; [lia|]. split.
  - split; [discriminate|]. split; [repeat constructor; lia|vm_compute; reflexivity].
  - destruct uu_empty_not_recognised as (A & _ & C). split; [exact A|]. rewrite C. discriminate.
Qed.
Print Assumptions C03_uu_empty_stream_refuted.

(* mode option below 0100: "%o" prints fewer than three digits, the reader insists on three *)
Theorem C03_uu_mode_below_0100_refuted :
  exists k mode name s, mode < 64 /\ name_ok name /\ bytes_ok s /\
    uu_bid (encode_all k mode name s) = 0 /\ uu_decode (encode_all k mode name s) <> Some s.
Proof.
  exists KUU, 7, dash, [0; 1]. split; [lia|]. split.
  - split; [discriminate|]. split; [repeat constructor; lia|vm_compute; reflexivity].
  - split; [repeat constructor; lia|]. destruct uu_mode_below_0100 as (A & B & _).
    split; [exact A|]. rewrite B. discriminate.
Qed.
Print Assumptions C03_uu_mode_below_0100_refuted.

(* name option with a byte outside 0x20..0x7e ("caf" 0xc3 0xa9): the header line is rejected *)
Theorem C03_uu_name_not_printable_refuted :
  exists k mode name s, 64 <= mode < 512 /\ name <> [] /\ bytes_ok s /\
    uu_bid (encode_all k mode name s) = 0 /\ uu_decode (encode_all k mode name s) = None.
Proof.
  exists KUU, 420, [99; 97; 102; 195; 169], [0; 1]. split; [lia|]. split; [discriminate|].
  split; [repeat constructor; lia|]. exact uu_name_not_printable.
Qed.
Print Assumptions C03_uu_name_not_printable_refuted.

(* ---------------------------------------------------------------- abstract codec: drive loop *)
(* For ANY library step function zcall that (hypotheses) consumes a prefix of the input offered,
   respects avail_out, appends to its input/output histories, and reports the stream end only
   when finishing: for EVERY partition into write calls, every buffer size >= the primed header
   and every fuel for which the loops return, the blocks forwarded downstream concatenate to
   header ++ (library output), the library was fed exactly concat(chunks) and has ended, and
   every block but the last has the buffer size.  Hypotheses = the arguments of the theorem. *)
Theorem C03_drive_chunking :
  forall (zst : Type) (zcall : zst -> list N -> nat -> bool -> zst * nat * list N * bool)
         (zin zout : zst -> list N) (zfinished : zst -> Prop),
  (forall z inp ao fin z' k o e, zcall z inp ao fin = (z', k, o, e) ->
     (k <= length inp)%nat /\ (length o <= ao)%nat /\ zin z' = zin z ++ firstn k inp /\ zout z' = zout z ++ o) ->
  (forall z inp ao z' k o e, zcall z inp ao false = (z', k, o, e) -> e = false) ->
  (forall z inp ao fin z' k o, zcall z inp ao fin = (z', k, o, true) -> zfinished z') ->
  forall bsz header fuel z0 chunks blocks,
  zin z0 = [] -> zout z0 = [] -> (length header <= bsz)%nat ->
  drive_all zst zcall fuel bsz z0 header chunks = Some blocks ->
  exists z, zfinished z /\ zin z = concat chunks /\ concat blocks = header ++ zout z /\
            Forall (fun b => length b = bsz) (removelast blocks).
Proof. exact drive_all_spec. Qed.
Print Assumptions C03_drive_chunking.

(* member concatenation for ANY self-delimiting framing (hypotheses = arguments) *)
Theorem C03_member_concat :
  forall (bid : list N -> bool) (decomp1 : list N -> option (list N * list N))
         (is_member : list N -> list N -> Prop),
  (forall x s rest, is_member x s -> decomp1 (x ++ rest) = Some (s, rest)) ->
  (forall x s rest, is_member x s -> bid (x ++ rest) = true) ->
  (forall x s, is_member x s -> x <> []) ->
  forall xa a xb b, is_member xa a -> is_member xb b ->
  read_members bid decomp1 3 (xa ++ xb) = Some (a ++ b).
Proof. exact member_concat. Qed.
Print Assumptions C03_member_concat.

(* any number of members followed by trailing garbage the bidder rejects *)
Theorem C03_members_then_garbage :
  forall (bid : list N -> bool) (decomp1 : list N -> option (list N * list N))
         (is_member : list N -> list N -> Prop),
  (forall x s rest, is_member x s -> decomp1 (x ++ rest) = Some (s, rest)) ->
  (forall x s rest, is_member x s -> bid (x ++ rest) = true) ->
  (forall x s, is_member x s -> x <> []) ->
  forall xs ss fuel garbage, Forall2 is_member xs ss -> (length xs < fuel)%nat ->
  (garbage = [] \/ bid garbage = false) ->
  read_members bid decomp1 fuel (concat xs ++ garbage) = Some (concat ss).
Proof. exact members_read. Qed.
Print Assumptions C03_members_then_garbage.

(* the two together: two archives written through the drive loop with any chunkings and buffer
   sizes, concatenated, decode to the concatenation of the two inputs *)
Theorem C03_drive_member_concat :
  forall (zst : Type) (zcall : zst -> list N -> nat -> bool -> zst * nat * list N * bool)
         (zin zout : zst -> list N) (zfinished : zst -> Prop) (z0 : zst) (header : list N)
         (bid : list N -> bool) (decomp1 : list N -> option (list N * list N)),
  (forall z inp ao fin z' k o e, zcall z inp ao fin = (z', k, o, e) ->
     (k <= length inp)%nat /\ (length o <= ao)%nat /\ zin z' = zin z ++ firstn k inp /\ zout z' = zout z ++ o) ->
  (forall z inp ao z' k o e, zcall z inp ao false = (z', k, o, e) -> e = false) ->
  (forall z inp ao fin z' k o, zcall z inp ao fin = (z', k, o, true) -> zfinished z') ->
  zin z0 = [] /\ zout z0 = [] ->
  (forall z rest, zfinished z ->
     decomp1 ((header ++ zout z) ++ rest) = Some (zin z, rest) /\ bid ((header ++ zout z) ++ rest) = true) ->
  header <> [] ->
  forall fuelA bszA chunksA blocksA fuelB bszB chunksB blocksB,
  (length header <= bszA)%nat -> (length header <= bszB)%nat ->
  drive_all zst zcall fuelA bszA z0 header chunksA = Some blocksA ->
  drive_all zst zcall fuelB bszB z0 header chunksB = Some blocksB ->
  read_members bid decomp1 3 (concat blocksA ++ concat blocksB) = Some (concat chunksA ++ concat chunksB).
Proof. exact drive_member_concat. Qed.
Print Assumptions C03_drive_member_concat.

(* ---------------------------------------------------------------- non-vacuity *)
(* a concrete multi-call write (hold buffer filled across calls, an empty call, bytes_per_block 7)
   really produces the header, two body lines and the trailer, and reads back *)
Example C03_nonvacuous_uu :
  let chunks := [[104; 101]; []; [108; 108; 111]; map N.of_nat (seq 0 50)] in
  match run_writer KUU 7 None None chunks with
  | Some blocks =>
      length blocks = 14%nat /\ Forall (fun b => length b = 7%nat) (removelast blocks) /\
      read_uu_only (concat blocks) = Some ([ARCHIVE_FILTER_UU; ARCHIVE_FILTER_NONE], concat chunks) /\
      firstn 12 (concat blocks) = [98; 101; 103; 105; 110; 32; 54; 52; 52; 32; 45; 10]
  | None => False
  end.
Proof. vm_compute. repeat split; try reflexivity. repeat constructor. Qed.

Example C03_nonvacuous_b64 :
  let chunks := [map N.of_nat (seq 0 56); [255]; [254; 253]] in
  match run_writer KB64 0 (Some [55; 53; 53]) (Some [102; 46; 98; 105; 110]) chunks with
  | Some blocks =>
      read_uu_only (concat blocks) = Some ([ARCHIVE_FILTER_UU; ARCHIVE_FILTER_NONE], concat chunks) /\
      64 <= opt_mode KB64 (Some [55; 53; 53]) < 512 /\ uu_bid (concat chunks) = 0
  | None => False
  end.
Proof. vm_compute. repeat split; try reflexivity; discriminate. Qed.

(* the hypotheses of the abstract theorems are satisfiable: a "stored" codec that copies as much
   as fits into avail_out and appends an end mark 0 when finishing *)
Definition st_call (z : list N * list N) (inp : list N) (ao : nat) (fin : bool)
  : (list N * list N) * nat * list N * bool :=
  if fin && (length inp =? 0)%nat && (1 <=? ao)%nat then ((fst z, snd z ++ [0]), O, [0], true)
  else let k := Nat.min (length inp) ao in
       ((fst z ++ firstn k inp, snd z ++ firstn k inp), k, firstn k inp, false).

Example C03_nonvacuous_drive :
  (forall z inp ao fin z' k o e, st_call z inp ao fin = (z', k, o, e) ->
     (k <= length inp)%nat /\ (length o <= ao)%nat /\ fst z' = fst z ++ firstn k inp /\ snd z' = snd z ++ o) /\
  (forall z inp ao z' k o e, st_call z inp ao false = (z', k, o, e) -> e = false) /\
  drive_all _ st_call 100 4 ([], []) [83; 84] [[1; 2; 3]; []; [4; 5; 6; 7; 8]] =
    Some [[83; 84; 1; 2]; [3; 4; 5; 6]; [7; 8; 0]].
Proof.
  split; [|split].
  - intros z inp ao fin z' k o e H. unfold st_call in H.
    destruct (fin && (length inp =? 0)%nat && (1 <=? ao)%nat) eqn:E.
    + apply andb_true_iff in E. destruct E as [E E3]. apply andb_true_iff in E. destruct E as [E1 E2].
      apply Nat.leb_le in E3. inversion H; subst. cbn [fst snd firstn length]. rewrite app_nil_r.
      repeat split; try reflexivity; lia.
    + cbv zeta in H. remember (Nat.min (length inp) ao) as m eqn:Em.
      inversion H; subst z' k o e. cbn [fst snd]. repeat split; try reflexivity; rewrite ?firstn_length; lia.
  - intros z inp ao z' k o e H. unfold st_call in H. cbn [andb] in H. cbv zeta in H. inversion H; reflexivity.
  - vm_compute. reflexivity.
Qed.

(* ... and so are those of the member theorems: one length byte, then the payload *)
Definition lp_decomp1 (x : list N) : option (list N * list N) :=
  match x with
  | n :: t => if (N.to_nat n <=? length t)%nat
              then Some (firstn (N.to_nat n) t, skipn (N.to_nat n) t) else None
  | [] => None
  end.
Definition lp_bid (x : list N) : bool := match x with [] => false | _ => true end.
Definition lp_member (x s : list N) : Prop := x = N.of_nat (length s) :: s.

Example C03_nonvacuous_members :
  (forall x s rest, lp_member x s -> lp_decomp1 (x ++ rest) = Some (s, rest)) /\
  (forall x s rest, lp_member x s -> lp_bid (x ++ rest) = true) /\
  (forall x s, lp_member x s -> x <> []) /\
  read_members lp_bid lp_decomp1 3 ([2; 7; 8] ++ [1; 9]) = Some ([7; 8] ++ [9]).
Proof.
  split; [|split; [|split]].
  - intros x s rest ->. cbn [app lp_decomp1]. rewrite Nat2N.id, app_length.
    replace (length s <=? length s + length rest)%nat with true by (symmetry; apply Nat.leb_le; lia).
    rewrite firstn_app_exact, skipn_app_exact by reflexivity. reflexivity.
  - intros x s rest ->. reflexivity.
  - intros x s ->. discriminate.
  - apply (C03_member_concat lp_bid lp_decomp1 lp_member).
    + intros x s rest ->. cbn [app lp_decomp1]. rewrite Nat2N.id, app_length.
      replace (length s <=? length s + length rest)%nat with true by (symmetry; apply Nat.leb_le; lia).
      rewrite firstn_app_exact, skipn_app_exact by reflexivity. reflexivity.
    + intros x s rest ->. reflexivity.
    + intros x s ->. discriminate.
    + reflexivity.
    + reflexivity.
Qed.
